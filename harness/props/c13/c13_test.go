// C13 — the wire codec round-trips every message and never panics on any input.
package c13

import (
	"bytes"
	"context"
	"fmt"
	"math"
	"regexp"
	"sort"
	"strings"
	"sync/atomic"
	"testing"
	"time"

	"github.com/relab/gorums"
	"github.com/relab/gorums/ordering"
	spb "google.golang.org/genproto/googleapis/rpc/status"
	"google.golang.org/grpc"
	"google.golang.org/grpc/credentials/insecure"
	"google.golang.org/grpc/status"
	"google.golang.org/protobuf/encoding/protowire"
	"google.golang.org/protobuf/proto"
	"google.golang.org/protobuf/reflect/protoreflect"
	"google.golang.org/protobuf/reflect/protoregistry"
	"google.golang.org/protobuf/types/known/anypb"
	"pgregory.net/rapid"

	// registrations of the repository's own services
	_ "github.com/relab/gorums/benchmark"
	_ "github.com/relab/gorums/cmd/protoc-gen-gorums/dev"
	_ "github.com/relab/gorums/tests/config"
	_ "github.com/relab/gorums/tests/correctable"
	_ "github.com/relab/gorums/tests/dummy"
	_ "github.com/relab/gorums/tests/metadata"
	_ "github.com/relab/gorums/tests/oneway"
	_ "github.com/relab/gorums/tests/ordering"
	_ "github.com/relab/gorums/tests/qf"
	_ "github.com/relab/gorums/tests/tls"
	_ "github.com/relab/gorums/tests/unresponsive"

	"verif/puppet"
	"verif/scen"
	"verif/vt"
)

// Case is one codec case.
type Case struct {
	// Mode: roundtrip | decode | e2e-frame | e2e-status | e2e-client
	Mode     string   `json:"mode"`
	Method   string   `json:"method,omitempty"` // full name of a registered method
	Response bool     `json:"response,omitempty"`
	MsgID    uint64   `json:"msg_id,omitempty"`
	Payload  []byte   `json:"payload,omitempty"` // wire encoding of the payload message
	Code     int32    `json:"code,omitempty"`
	Text     string   `json:"text,omitempty"`
	Details  [][]byte `json:"details,omitempty"` // marshalled Any messages
	HasStat  bool     `json:"has_status,omitempty"`
	Frame    []byte   `json:"frame,omitempty"` // decode / e2e-frame: bytes offered to the decoder
	Mutation string   `json:"mutation,omitempty"`
	Rich     bool     `json:"rich,omitempty"` // payload has a populated non-scalar field
	// e2e-client: the call type whose request a hostile server answers with Frame
	ClientKind string `json:"client_kind,omitempty"`
	// e2e-status: the handler outcomes of consecutive calls to one node through one manager
	// (code 0 = the handler succeeds); empty = the single outcome (Code, Text)
	Seq []StatusStep `json:"seq,omitempty"`
}

// StatusStep is one handler outcome of an e2e-status case.
type StatusStep struct {
	Code int32  `json:"code"`
	Text string `json:"text,omitempty"`
	// Wrap: the handler returns the status error wrapped (see scen.Behaviour.WrapErr)
	Wrap int `json:"wrap,omitempty"`
}

var (
	methods     []protoreflect.MethodDescriptor
	methodNames []string
	nonMethods  []string // full names of every non-method entity in the registry
)

func init() {
	protoregistry.GlobalFiles.RangeFiles(func(fd protoreflect.FileDescriptor) bool {
		nonMethods = append(nonMethods, fd.Path(), string(fd.Package()))
		var walkMsgs func(ms protoreflect.MessageDescriptors)
		walkMsgs = func(ms protoreflect.MessageDescriptors) {
			for i := 0; i < ms.Len(); i++ {
				m := ms.Get(i)
				nonMethods = append(nonMethods, string(m.FullName()))
				for j := 0; j < m.Fields().Len(); j++ {
					nonMethods = append(nonMethods, string(m.Fields().Get(j).FullName()))
				}
				for j := 0; j < m.Oneofs().Len(); j++ {
					nonMethods = append(nonMethods, string(m.Oneofs().Get(j).FullName()))
				}
				for j := 0; j < m.Enums().Len(); j++ {
					e := m.Enums().Get(j)
					nonMethods = append(nonMethods, string(e.FullName()))
					for k := 0; k < e.Values().Len(); k++ {
						nonMethods = append(nonMethods, string(e.Values().Get(k).FullName()))
					}
				}
				walkMsgs(m.Messages())
			}
		}
		walkMsgs(fd.Messages())
		for i := 0; i < fd.Enums().Len(); i++ {
			e := fd.Enums().Get(i)
			nonMethods = append(nonMethods, string(e.FullName()))
			for k := 0; k < e.Values().Len(); k++ {
				nonMethods = append(nonMethods, string(e.Values().Get(k).FullName()))
			}
		}
		for i := 0; i < fd.Extensions().Len(); i++ {
			nonMethods = append(nonMethods, string(fd.Extensions().Get(i).FullName()))
		}
		for i := 0; i < fd.Services().Len(); i++ {
			s := fd.Services().Get(i)
			nonMethods = append(nonMethods, string(s.FullName()))
			for j := 0; j < s.Methods().Len(); j++ {
				methods = append(methods, s.Methods().Get(j))
			}
		}
		return true
	})
	sort.Slice(methods, func(i, j int) bool { return methods[i].FullName() < methods[j].FullName() })
	for _, m := range methods {
		methodNames = append(methodNames, string(m.FullName()))
	}
	sort.Strings(nonMethods)
	// de-duplicate
	out := nonMethods[:0]
	for i, s := range nonMethods {
		if s != "" && (i == 0 || s != nonMethods[i-1]) {
			out = append(out, s)
		}
	}
	nonMethods = out
}

func findMethod(name string) protoreflect.MethodDescriptor {
	i := sort.SearchStrings(methodNames, name)
	if i < len(methodNames) && methodNames[i] == name {
		return methods[i]
	}
	return nil
}

// ---- reflective message generator ----

func genScalar(t *rapid.T, fd protoreflect.FieldDescriptor, label string) protoreflect.Value {
	switch fd.Kind() {
	case protoreflect.BoolKind:
		return protoreflect.ValueOfBool(rapid.Bool().Draw(t, label))
	case protoreflect.Int32Kind, protoreflect.Sint32Kind, protoreflect.Sfixed32Kind:
		return protoreflect.ValueOfInt32(rapid.OneOf(rapid.Int32(), rapid.SampledFrom([]int32{0, 1, -1, math.MaxInt32, math.MinInt32})).Draw(t, label))
	case protoreflect.Int64Kind, protoreflect.Sint64Kind, protoreflect.Sfixed64Kind:
		return protoreflect.ValueOfInt64(rapid.OneOf(rapid.Int64(), rapid.SampledFrom([]int64{0, 1, -1, math.MaxInt64, math.MinInt64})).Draw(t, label))
	case protoreflect.Uint32Kind, protoreflect.Fixed32Kind:
		return protoreflect.ValueOfUint32(rapid.OneOf(rapid.Uint32(), rapid.SampledFrom([]uint32{0, 1, math.MaxUint32})).Draw(t, label))
	case protoreflect.Uint64Kind, protoreflect.Fixed64Kind:
		return protoreflect.ValueOfUint64(rapid.OneOf(rapid.Uint64(), rapid.SampledFrom([]uint64{0, 1, math.MaxUint64})).Draw(t, label))
	case protoreflect.FloatKind:
		return protoreflect.ValueOfFloat32(rapid.Float32().Draw(t, label))
	case protoreflect.DoubleKind:
		return protoreflect.ValueOfFloat64(rapid.Float64().Draw(t, label))
	case protoreflect.StringKind:
		return protoreflect.ValueOfString(rapid.OneOf(rapid.String(), rapid.StringN(0, 8, 32)).Draw(t, label))
	case protoreflect.BytesKind:
		n := rapid.SampledFrom([]int{-1, -1, -1, 0, 70000}).Draw(t, label+"big")
		if n >= 0 {
			b := make([]byte, n)
			for i := range b {
				b[i] = byte(i * 31)
			}
			return protoreflect.ValueOfBytes(b)
		}
		return protoreflect.ValueOfBytes(rapid.SliceOfN(rapid.Byte(), 0, 64).Draw(t, label))
	case protoreflect.EnumKind:
		vals := fd.Enum().Values()
		if rapid.IntRange(0, 5).Draw(t, label+"unk") == 0 {
			return protoreflect.ValueOfEnum(protoreflect.EnumNumber(rapid.Int32Range(-5, 100).Draw(t, label)))
		}
		return protoreflect.ValueOfEnum(vals.Get(rapid.IntRange(0, vals.Len()-1).Draw(t, label)).Number())
	}
	panic("unhandled kind " + fd.Kind().String())
}

// fill populates m; returns whether a non-scalar field was populated.
func fill(t *rapid.T, m protoreflect.Message, depth int, label string) bool {
	rich := false
	fds := m.Descriptor().Fields()
	for i := 0; i < fds.Len(); i++ {
		fd := fds.Get(i)
		l := fmt.Sprintf("%s.%s", label, fd.Name())
		if rapid.IntRange(0, 2).Draw(t, l+"?") == 0 {
			continue
		}
		switch {
		case fd.IsMap():
			n := rapid.IntRange(0, 3).Draw(t, l+"#")
			mp := m.Mutable(fd).Map()
			for j := 0; j < n; j++ {
				k := genScalar(t, fd.MapKey(), fmt.Sprintf("%s.k%d", l, j)).MapKey()
				if fd.MapValue().Message() != nil {
					v := mp.NewValue()
					if depth > 0 {
						fill(t, v.Message(), depth-1, fmt.Sprintf("%s.v%d", l, j))
					}
					mp.Set(k, v)
				} else {
					mp.Set(k, genScalar(t, fd.MapValue(), fmt.Sprintf("%s.v%d", l, j)))
				}
			}
			rich = rich || n > 0
		case fd.IsList():
			n := rapid.IntRange(0, 3).Draw(t, l+"#")
			ls := m.Mutable(fd).List()
			for j := 0; j < n; j++ {
				if fd.Message() != nil {
					v := ls.NewElement()
					if depth > 0 {
						fill(t, v.Message(), depth-1, fmt.Sprintf("%s.%d", l, j))
					}
					ls.Append(v)
				} else {
					ls.Append(genScalar(t, fd, fmt.Sprintf("%s.%d", l, j)))
				}
			}
			rich = rich || n > 0
		case fd.Message() != nil:
			if depth > 0 {
				fill(t, m.Mutable(fd).Message(), depth-1, l)
				rich = true
			}
		default:
			m.Set(fd, genScalar(t, fd, l))
		}
	}
	if rapid.IntRange(0, 6).Draw(t, label+".unknown?") == 0 {
		// an unknown field (field number 1000+, varint / bytes)
		var b []byte
		b = protowire.AppendTag(b, protowire.Number(1000+rapid.IntRange(0, 5).Draw(t, label+".unkno")), protowire.BytesType)
		b = protowire.AppendBytes(b, rapid.SliceOfN(rapid.Byte(), 0, 8).Draw(t, label+".unkval"))
		m.SetUnknown(b)
		rich = true
	}
	return rich
}

func newPayload(md protoreflect.MethodDescriptor, response bool) (proto.Message, error) {
	name := md.Input().FullName()
	if response {
		name = md.Output().FullName()
	}
	mt, err := protoregistry.GlobalTypes.FindMessageByName(name)
	if err != nil {
		return nil, err
	}
	return mt.New().Interface(), nil
}

func genRoundtripParts(t *rapid.T, c *Case) {
	// puppet methods (with the Rich message) are drawn more often
	if rapid.Bool().Draw(t, "puppetMethod") {
		c.Method = "puppet.Puppet." + rapid.SampledFrom(scen.AllKinds).Draw(t, "pm")
	} else {
		c.Method = rapid.SampledFrom(methodNames).Draw(t, "method")
	}
	c.Response = rapid.Bool().Draw(t, "response")
	c.MsgID = rapid.OneOf(rapid.Uint64(), rapid.Uint64Range(0, 3)).Draw(t, "msgid")
	if c.Mode == "e2e-client" {
		// a frame from a server; mostly with the id of the manager's first call, so that it is routed to that call
		c.Response = true
		if rapid.IntRange(0, 3).Draw(t, "routed") != 0 {
			c.MsgID = 1
		}
	}
	md := findMethod(c.Method)
	p, err := newPayload(md, c.Response)
	if err != nil {
		t.Fatalf("harness: %v", err)
	}
	c.Rich = fill(t, p.ProtoReflect(), 3, "p")
	c.Payload, err = proto.MarshalOptions{Deterministic: true}.Marshal(p)
	if err != nil {
		t.Fatalf("harness: cannot marshal generated payload: %v", err)
	}
	if rapid.Bool().Draw(t, "hasStatus") {
		c.HasStat = true
		c.Code = rapid.OneOf(rapid.Int32Range(0, 16), rapid.Int32()).Draw(t, "code")
		c.Text = rapid.OneOf(rapid.String(), rapid.SampledFrom([]string{"", "boom", "not found: \"x\"\n"})).Draw(t, "text")
		nd := rapid.IntRange(0, 2).Draw(t, "ndetails")
		for i := 0; i < nd; i++ {
			a := &anypb.Any{TypeUrl: "type.googleapis.com/" + rapid.SampledFrom([]string{"puppet.Req", "google.rpc.Status", "x.Unknown"}).Draw(t, fmt.Sprintf("durl%d", i)),
				Value: rapid.SliceOfN(rapid.Byte(), 0, 16).Draw(t, fmt.Sprintf("dval%d", i))}
			b, _ := proto.Marshal(a)
			c.Details = append(c.Details, b)
		}
	}
}

func (c Case) metadata() *ordering.Metadata {
	md := &ordering.Metadata{MessageID: c.MsgID, Method: c.Method}
	if c.HasStat {
		st := &spb.Status{Code: c.Code, Message: c.Text}
		for _, d := range c.Details {
			a := &anypb.Any{}
			if proto.Unmarshal(d, a) == nil {
				st.Details = append(st.Details, a)
			}
		}
		md.Status = st
	}
	return md
}

func (c Case) validFrame() ([]byte, error) {
	md := findMethod(c.Method)
	if md == nil {
		return nil, fmt.Errorf("unknown method %q", c.Method)
	}
	p, err := newPayload(md, c.Response)
	if err != nil {
		return nil, err
	}
	if err := proto.Unmarshal(c.Payload, p); err != nil {
		return nil, err
	}
	return gorums.NewCodec().Marshal(&gorums.Message{Metadata: c.metadata(), Message: p})
}

var hostileVarints = [][]byte{
	{0x00}, {0x01}, {0x7f}, {0xff, 0x01}, {0xff, 0xff, 0xff, 0xff, 0x0f},
	{0xff, 0xff, 0xff, 0xff, 0xff, 0xff, 0xff, 0xff, 0xff, 0x01},       // 2^64-1
	{0xff, 0xff, 0xff, 0xff, 0xff, 0xff, 0xff, 0xff, 0x7f},             // 2^63-1
	{0x80, 0x80, 0x80, 0x80, 0x80, 0x80, 0x80, 0x80, 0x80, 0x01},       // 2^63
	{0xff, 0xff, 0xff, 0xff, 0xff, 0xff, 0xff, 0xff, 0xff, 0xff, 0x01}, // overflow
	{0x80}, {0x80, 0x80}, // unterminated
}

func rawMetadata(msgID uint64, method []byte) []byte {
	var b []byte
	b = protowire.AppendTag(b, 1, protowire.VarintType)
	b = protowire.AppendVarint(b, msgID)
	b = protowire.AppendTag(b, 2, protowire.BytesType)
	b = protowire.AppendBytes(b, method)
	return b
}

func frameOf(md, msg []byte) []byte {
	var b []byte
	b = protowire.AppendBytes(b, md)
	b = protowire.AppendBytes(b, msg)
	return b
}

func genDecode(t *rapid.T, c *Case) {
	genRoundtripParts(t, c)
	valid, err := c.validFrame()
	if err != nil {
		t.Fatalf("harness: %v", err)
	}
	mdBytes, mdLen := protowire.ConsumeBytes(valid)
	msgBytes, _ := protowire.ConsumeBytes(valid[mdLen:])
	mut := rapid.SampledFrom([]string{"truncate", "prefix1", "prefix2", "swap", "splice", "method-nonmethod", "method-nonmethod", "method-unknown", "method-empty", "method-long", "method-nonutf8", "flip", "noise", "valid"}).Draw(t, "mutation")
	c.Mutation = mut
	switch mut {
	case "valid":
		c.Frame = valid
	case "truncate":
		cuts := []int{0, 1, mdLen - 1, mdLen, mdLen + 1, len(valid) - 1}
		cut := rapid.OneOf(rapid.SampledFrom(cuts), rapid.IntRange(0, len(valid))).Draw(t, "cut")
		if cut < 0 {
			cut = 0
		}
		if cut > len(valid) {
			cut = len(valid)
		}
		c.Frame = append([]byte(nil), valid[:cut]...)
	case "prefix1", "prefix2":
		var pre []byte
		n := len(mdBytes)
		if mut == "prefix2" {
			n = len(msgBytes)
		}
		switch rapid.IntRange(0, 3).Draw(t, "prefixKind") {
		case 0:
			pre = rapid.SampledFrom(hostileVarints).Draw(t, "hostile")
		case 1:
			pre = protowire.AppendVarint(nil, uint64(max(0, n-1-rapid.IntRange(0, 3).Draw(t, "short"))))
		case 2:
			pre = protowire.AppendVarint(nil, uint64(n+1+rapid.IntRange(0, 300).Draw(t, "long")))
		default:
			pre = protowire.AppendVarint(nil, rapid.Uint64().Draw(t, "anylen"))
		}
		if mut == "prefix1" {
			c.Frame = append(append(append([]byte(nil), pre...), mdBytes...), valid[mdLen:]...)
		} else {
			c.Frame = append(append(append([]byte(nil), valid[:mdLen]...), pre...), msgBytes...)
		}
	case "swap":
		c.Frame = frameOf(msgBytes, mdBytes)
	case "splice":
		c.Frame = append(append([]byte(nil), valid[:rapid.IntRange(0, len(valid)).Draw(t, "spliceAt")]...), valid...)
	case "method-nonmethod":
		c.Frame = frameOf(rawMetadata(c.MsgID, []byte(rapid.SampledFrom(nonMethods).Draw(t, "entity"))), msgBytes)
	case "method-unknown":
		c.Frame = frameOf(rawMetadata(c.MsgID, []byte(rapid.SampledFrom([]string{"puppet.Puppet.Nope", "nosuch.Service.M", "puppet", ".puppet.Puppet.QC", "puppet.Puppet.QC.", "puppet..QC", "/puppet.Puppet/QC", "a.b.c.d.e.f"}).Draw(t, "unknown"))), msgBytes)
	case "method-empty":
		c.Frame = frameOf(rawMetadata(c.MsgID, nil), msgBytes)
	case "method-long":
		c.Frame = frameOf(rawMetadata(c.MsgID, bytes.Repeat([]byte("puppet.Puppet."), rapid.IntRange(100, 5000).Draw(t, "reps"))), msgBytes)
	case "method-nonutf8":
		c.Frame = frameOf(rawMetadata(c.MsgID, append([]byte("puppet.Puppet.Q"), 0xff, 0xfe, 0xc0)), msgBytes)
	case "flip":
		c.Frame = append([]byte(nil), valid...)
		n := rapid.IntRange(1, 4).Draw(t, "flips")
		for i := 0; i < n && len(c.Frame) > 0; i++ {
			pos := rapid.IntRange(0, len(c.Frame)-1).Draw(t, fmt.Sprintf("pos%d", i))
			c.Frame[pos] ^= byte(rapid.IntRange(1, 255).Draw(t, fmt.Sprintf("bit%d", i)))
		}
	case "noise":
		c.Frame = rapid.SliceOfN(rapid.Byte(), 0, 200).Draw(t, "noise")
	}
	// the case keeps only what the decoder sees
	c.Payload, c.Details = nil, nil
}

func gen(t *rapid.T) Case {
	mode := rapid.SampledFrom([]string{"roundtrip", "roundtrip", "roundtrip", "decode", "decode", "decode", "decode", "e2e-frame", "e2e-status", "e2e-client"}).Draw(t, "mode")
	c := Case{Mode: mode}
	switch mode {
	case "roundtrip":
		genRoundtripParts(t, &c)
	case "decode", "e2e-frame", "e2e-client":
		genDecode(t, &c)
		if mode == "e2e-frame" {
			c.Response = false
		}
		if mode == "e2e-client" {
			c.ClientKind = rapid.SampledFrom(clientKinds).Draw(t, "clientKind")
		}
	case "e2e-status":
		n := rapid.SampledFrom([]int{1, 2, 3, 3, 4, 6}).Draw(t, "steps")
		for i := 0; i < n; i++ {
			st := StatusStep{Code: rapid.Int32Range(1, 16).Draw(t, fmt.Sprintf("code%d", i))}
			if i > 0 && rapid.IntRange(0, 2).Draw(t, fmt.Sprintf("ok%d", i)) == 0 {
				st.Code = 0 // a success after failures (and between them)
			}
			if st.Code != 0 {
				st.Text = rapid.OneOf(rapid.StringN(0, 40, 200), rapid.SampledFrom([]string{"", "", "boom", "line1\nline2", "ünïcödé ☃"})).Draw(t, fmt.Sprintf("text%d", i))
				st.Wrap = rapid.SampledFrom([]int{0, 0, 0, 1, 2, 3}).Draw(t, fmt.Sprintf("wrap%d", i))
			}
			c.Seq = append(c.Seq, st)
		}
	}
	return c
}

var digits = regexp.MustCompile(`[0-9]+`)

func panicKey(r any) string {
	s := fmt.Sprint(r)
	s = digits.ReplaceAllString(s, "N")
	if len(s) > 70 {
		s = s[:70]
	}
	return s
}

func decode(frame []byte, response bool) (msg *gorums.Message, err error, panicked any) {
	defer func() {
		if r := recover(); r != nil {
			panicked = r
		}
	}()
	msg = gorums.VerifNewMessage(response)
	err = gorums.NewCodec().Unmarshal(frame, msg)
	return
}

func run(c Case) vt.Verdict {
	switch c.Mode {
	case "roundtrip":
		return runRoundtrip(c)
	case "decode":
		_, _, p := decode(c.Frame, c.Response)
		if p != nil {
			return vt.Fail("C13/decode-panic/"+panicKey(p), "Unmarshal panicked on a %d-byte frame (mutation %s, response=%v): %v", len(c.Frame), c.Mutation, c.Response, p)
		}
		return vt.Pass(c.Mutation != "noise" && c.Mutation != "valid", "mode=decode", "mutation="+c.Mutation)
	case "e2e-frame":
		return runE2EFrame(c)
	case "e2e-status":
		return runE2EStatus(c)
	case "e2e-client":
		return runE2EClient(c)
	}
	return vt.Verdict{OK: true, Inconclusive: true, Msg: "unknown mode"}
}

func runRoundtrip(c Case) vt.Verdict {
	md := findMethod(c.Method)
	if md == nil {
		return vt.Verdict{OK: true, Inconclusive: true, Msg: "method not registered: " + c.Method}
	}
	p, err := newPayload(md, c.Response)
	if err != nil {
		return vt.Verdict{OK: true, Inconclusive: true, Msg: err.Error()}
	}
	if err := proto.Unmarshal(c.Payload, p); err != nil {
		return vt.Verdict{OK: true, Inconclusive: true, Msg: "payload: " + err.Error()}
	}
	meta := c.metadata()
	codec := gorums.NewCodec()
	var b []byte
	var out *gorums.Message
	var pan any
	func() {
		defer func() { pan = recover() }()
		b, err = codec.Marshal(&gorums.Message{Metadata: meta, Message: p})
	}()
	if pan != nil {
		return vt.Fail("C13/roundtrip/marshal-panic", "Marshal panicked for %s: %v", c.Method, pan)
	}
	if err != nil {
		return vt.Fail("C13/roundtrip/marshal-error", "Marshal failed for a valid %s message: %v", c.Method, err)
	}
	out, err, pan = decode(b, c.Response)
	if pan != nil {
		return vt.Fail("C13/roundtrip/unmarshal-panic", "Unmarshal panicked on the encoding of a valid %s message: %v", c.Method, pan)
	}
	if err != nil {
		return vt.Fail("C13/roundtrip/unmarshal-error", "Unmarshal failed on the encoding of a valid %s message: %v", c.Method, err)
	}
	if !proto.Equal(out.Metadata, meta) {
		return vt.Fail("C13/roundtrip/metadata", "%s: metadata changed: got %v want %v", c.Method, out.Metadata, meta)
	}
	wantName := md.Input().FullName()
	if c.Response {
		wantName = md.Output().FullName()
	}
	if out.Message == nil {
		return vt.Fail("C13/roundtrip/type", "%s: decoded payload is nil", c.Method)
	}
	if got := out.Message.ProtoReflect().Descriptor().FullName(); got != wantName {
		return vt.Fail("C13/roundtrip/type", "%s (response=%v): decoded payload has type %s, want %s", c.Method, c.Response, got, wantName)
	}
	if fmt.Sprintf("%T", out.Message) != fmt.Sprintf("%T", p) {
		return vt.Fail("C13/roundtrip/type", "%s: decoded payload has Go type %T, want %T", c.Method, out.Message, p)
	}
	if !proto.Equal(out.Message, p) {
		return vt.Fail("C13/roundtrip/payload", "%s (response=%v): payload changed by the round trip", c.Method, c.Response)
	}
	if c.HasStat {
		s1, s2 := status.FromProto(meta.Status), status.FromProto(out.Metadata.GetStatus())
		if s1.Code() != s2.Code() || s1.Message() != s2.Message() || len(s1.Proto().GetDetails()) != len(s2.Proto().GetDetails()) {
			return vt.Fail("C13/roundtrip/status", "status changed: %v -> %v", s1, s2)
		}
	}
	classes := []string{"mode=roundtrip"}
	if strings.HasPrefix(c.Method, "puppet.") {
		classes = append(classes, "puppet-method")
	}
	if c.HasStat {
		classes = append(classes, "with-status")
	}
	if c.Rich {
		classes = append(classes, "rich-payload")
	}
	return vt.Pass(c.Rich || (c.HasStat && len(c.Details) > 0), classes...)
}

// rawCodec passes byte slices through; it is named like the gorums codec so
// that the server decodes with the real one.
type rawCodec struct{}

func (rawCodec) Marshal(v any) ([]byte, error) { return *(v.(*[]byte)), nil }
func (rawCodec) Unmarshal(b []byte, v any) error {
	*(v.(*[]byte)) = append([]byte(nil), b...)
	return nil
}
func (rawCodec) Name() string { return gorums.ContentSubtype }

var nodeStreamDesc = &grpc.StreamDesc{StreamName: "NodeStream", ServerStreams: true, ClientStreams: true}

func rawStream(cl *scen.Cluster, ctx context.Context) (*grpc.ClientConn, grpc.ClientStream, error) {
	conn, err := grpc.DialContext(ctx, scen.Addr(0), grpc.WithContextDialer(cl.Fab.Dialer),
		grpc.WithTransportCredentials(insecure.NewCredentials()))
	if err != nil {
		return nil, nil, err
	}
	st, err := conn.NewStream(ctx, nodeStreamDesc, "/ordering.Gorums/NodeStream", grpc.ForceCodec(rawCodec{}))
	if err != nil {
		conn.Close()
		return nil, nil, err
	}
	return conn, st, nil
}

// runE2EFrame writes the frame raw to a live puppet server's NodeStream; the
// server's stream goroutine must not panic and the server must keep serving.
func runE2EFrame(c Case) vt.Verdict {
	cl := scen.NewCluster(1, 0)
	defer cl.Shutdown()
	cl.Start(0)
	ctx, cancel := context.WithTimeout(context.Background(), scen.B)
	defer cancel()
	conn, st, err := rawStream(cl, ctx)
	if err != nil {
		return vt.Verdict{OK: true, Inconclusive: true, Msg: "raw stream: " + err.Error()}
	}
	defer conn.Close()
	frame := c.Frame
	if err := st.SendMsg(&frame); err != nil {
		return vt.Verdict{OK: true, Inconclusive: true, Msg: "raw send: " + err.Error()}
	}
	// a well-formed probe on a fresh stream must be answered
	conn2, st2, err := rawStream(cl, ctx)
	if err != nil {
		return vt.Verdict{OK: true, Inconclusive: true, Msg: "probe stream: " + err.Error()}
	}
	defer conn2.Close()
	tok := scen.NewTokens(1)
	probe, _ := gorums.NewCodec().Marshal(&gorums.Message{Metadata: &ordering.Metadata{MessageID: 7, Method: "puppet.Puppet.RPC"}, Message: &puppet.Req{Token: tok}})
	if err := st2.SendMsg(&probe); err != nil {
		return vt.Fail("C13/e2e/server-dead", "probe could not be sent after a hostile frame (%s): %v", c.Mutation, err)
	}
	var reply []byte
	errc := make(chan error, 1)
	go func() { errc <- st2.RecvMsg(&reply) }()
	select {
	case err := <-errc:
		if err != nil {
			return vt.Fail("C13/e2e/server-dead", "probe failed after a hostile frame (%s): %v", c.Mutation, err)
		}
	case <-time.After(scen.B):
		return vt.Fail("C13/e2e/server-dead", "probe not answered within %v after a hostile frame (%s)", scen.B, c.Mutation)
	}
	out, derr, p := decode(reply, true)
	if p != nil || derr != nil {
		return vt.Fail("C13/e2e/probe-reply", "probe reply does not decode: %v %v", derr, p)
	}
	if rep, ok := out.Message.(*puppet.Rep); !ok || rep.GetToken() != tok {
		return vt.Fail("C13/e2e/probe-reply", "probe reply is not the reply to the probe: %v", out.Message)
	}
	// give the hostile stream's goroutine a moment, then look for recovered panics
	cl.Log.WaitFor(20*time.Millisecond, func(evs []scen.Event) bool {
		for _, e := range evs {
			if e.Kind == "server-panic" {
				return true
			}
		}
		return false
	})
	for _, e := range cl.Log.Snapshot() {
		if e.Kind == "server-panic" {
			return vt.Fail("C13/e2e/server-panic/"+panicKey(e.Note), "the server's stream goroutine panicked on a frame (mutation %s): %s", c.Mutation, e.Note)
		}
	}
	return vt.Pass(c.Mutation != "noise" && c.Mutation != "valid", "mode=e2e-frame", "mutation="+c.Mutation)
}

var clientKinds = []string{"RPC", "QC", "QCCustom", "QCPerNode", "Async", "AsyncCustom", "Corr", "CorrCustom", "CorrStream", "Unicast", "Multicast"}

// runE2EClient: the receiving process is a client. A raw grpc server (no gorums code on
// its side of the wire) answers the first request of a fresh manager with the case's frame
// and every later request with a well-formed reply. Whatever the frame is, the client
// process must not crash or panic (the call may fail or be answered), and the node must
// remain usable: a later RPC is answered.
func runE2EClient(c Case) vt.Verdict {
	cl := scen.NewCluster(1, 0)
	defer cl.Shutdown()
	lis := cl.Fab.Listen(scen.Addr(0))
	var nreq int32
	hostileSent := make(chan struct{})
	frame := c.Frame
	gs := grpc.NewServer(grpc.ForceServerCodec(rawCodec{}), grpc.UnknownServiceHandler(func(_ any, st grpc.ServerStream) error {
		codec := gorums.NewCodec()
		for {
			var b []byte
			if err := st.RecvMsg(&b); err != nil {
				return err
			}
			req := gorums.VerifNewMessage(false)
			if err := codec.Unmarshal(b, req); err != nil {
				continue
			}
			if atomic.AddInt32(&nreq, 1) == 1 {
				f := append([]byte(nil), frame...)
				err := st.SendMsg(&f)
				close(hostileSent)
				if err != nil {
					return err
				}
				continue
			}
			var tok uint64
			if r, ok := req.Message.(*puppet.Req); ok {
				tok = r.GetToken()
			}
			out, err := codec.Marshal(&gorums.Message{Metadata: &ordering.Metadata{MessageID: req.Metadata.GetMessageID(), Method: req.Metadata.GetMethod()},
				Message: &puppet.Rep{Token: tok}})
			if err != nil {
				continue
			}
			if err := st.SendMsg(&out); err != nil {
				return err
			}
		}
	}))
	go func() { _ = gs.Serve(lis) }()
	defer gs.Stop()
	client, err := scen.NewClient(cl, scen.MgrOpts{})
	if err != nil {
		return vt.Verdict{OK: true, Inconclusive: true, Msg: err.Error()}
	}
	defer client.Close(scen.B)
	issue := func(call *scen.Call) (panicked any) {
		done := make(chan any, 1)
		go func() {
			defer func() { done <- recover() }()
			call.Issue()
		}()
		select {
		case p := <-done:
			if p != nil {
				return p
			}
		case <-time.After(scen.B):
			return nil
		}
		scen.Await(call.DoneCh(), 2*time.Second)
		return nil
	}
	tok := scen.NewTokens(40)
	spec := scen.CallSpec{Kind: c.ClientKind, Node: 0, Ctx: "deadline", DeadlineUs: 200000, Script: scen.QScript{Kind: "threshold", Q: 1}}
	first := client.NewCall(0, tok, 1, spec)
	if p := issue(first); p != nil {
		return vt.Fail("C13/e2e-client/caller-panic/"+panicKey(p), "a %s call panicked in the caller's goroutine when the server answered with a frame (mutation %s, method %q): %v", c.ClientKind, c.Mutation, c.Method, p)
	}
	select {
	case <-hostileSent:
	case <-time.After(scen.B):
		return vt.Verdict{OK: true, Inconclusive: true, Msg: "the request did not reach the raw server"}
	}
	first.Cancel()
	// the node must remain usable (the stream may have to be re-created after a frame that does not decode)
	var lastErr error
	for i := 1; i <= 30; i++ {
		probe := client.NewCall(i, tok+uint64(i), uint64(i+1), scen.CallSpec{Kind: "RPC", Node: 0, Ctx: "deadline", DeadlineUs: 500000})
		if p := issue(probe); p != nil {
			return vt.Fail("C13/e2e-client/caller-panic/"+panicKey(p), "an RPC after the hostile frame panicked: %v", p)
		}
		if probe.Err == nil {
			if rep, ok := probe.Value.(*puppet.Rep); ok && rep.GetToken() == tok+uint64(i) {
				return vt.Pass(c.Mutation != "noise", "mode=e2e-client", "mutation="+c.Mutation, "client-kind="+c.ClientKind, fmt.Sprintf("routed=%v", c.MsgID == 1))
			}
		}
		lastErr = probe.Err
		probe.Cancel()
		time.Sleep(10 * time.Millisecond)
	}
	return vt.Fail("C13/e2e-client/client-dead", "after a frame from the server (mutation %s) 30 RPCs to the node failed, the last with: %v", c.Mutation, lastErr)
}

// runE2EStatus: a handler's error status reaches the caller with the same code and
// message - for every call of a sequence of calls to one node through one manager
// (a success after a failure arrives as a success, an empty message stays empty).
func runE2EStatus(c Case) vt.Verdict {
	seq := c.Seq
	if len(seq) == 0 {
		seq = []StatusStep{{Code: c.Code, Text: c.Text}}
	}
	cl := scen.NewCluster(1, 0)
	defer cl.Shutdown()
	cl.Start(0)
	client, err := scen.NewClient(cl, scen.MgrOpts{})
	if err != nil {
		return vt.Verdict{OK: true, Inconclusive: true, Msg: err.Error()}
	}
	defer client.Close(scen.B)
	tok0 := scen.NewTokens(len(seq))
	mixed := false
	for i, stp := range seq {
		tok := tok0 + uint64(i)
		where := fmt.Sprintf("call %d of %d", i+1, len(seq))
		bh := scen.Behaviour{ErrCode: int(stp.Code), ErrMsg: stp.Text, WrapErr: stp.Wrap}
		cl.SetBehaviour(0, tok, bh)
		// the handler's error status is what grpc's status.FromError makes of the error it returns:
		// for a wrapped status error the wrapped code with the full error text
		want, _ := status.FromError(scen.HandlerErr(bh, tok, 0))
		call := client.NewCall(i, tok, uint64(i+1), scen.CallSpec{Kind: "RPC", Node: 0, Ctx: "cancel"})
		go call.Issue()
		if r, _ := scen.Await(call.DoneCh(), scen.B); r != scen.Done {
			call.Cancel()
			return vt.Verdict{OK: true, Inconclusive: true, Msg: "RPC did not return in time"}
		}
		if stp.Code == 0 {
			mixed = true
			if call.Err != nil {
				return vt.Fail("C13/e2e/status-invented", "%s: the handler succeeded but the caller got %v", where, call.Err)
			}
			if rep, ok := call.Value.(*puppet.Rep); !ok || rep.GetToken() != tok {
				return vt.Fail("C13/e2e/status-invented", "%s: the handler succeeded but the caller's value is not its reply: %v", where, call.Value)
			}
			continue
		}
		if call.Err == nil {
			return vt.Fail("C13/e2e/status-lost", "%s: handler failed with code %d but the caller got no error", where, stp.Code)
		}
		st, ok := status.FromError(call.Err)
		if !ok {
			return vt.Fail("C13/e2e/status-lost", "%s: caller's error is not a status error: %v", where, call.Err)
		}
		if st.Code() != want.Code() || st.Message() != want.Message() {
			return vt.Fail("C13/e2e/status-changed", "%s: handler status (code %d, %q; wrap %d) reached the caller as (code %d, %q)", where, want.Code(), want.Message(), stp.Wrap, st.Code(), st.Message())
		}
		if len(st.Proto().GetDetails()) != 0 {
			return vt.Fail("C13/e2e/status-changed", "%s: handler status without details reached the caller with %d details", where, len(st.Proto().GetDetails()))
		}
	}
	classes := []string{"mode=e2e-status", fmt.Sprintf("status-steps=%d", len(seq))}
	if mixed {
		classes = append(classes, "success-after-failure")
	}
	return vt.Pass(true, classes...)
}

func max(a, b int) int {
	if a > b {
		return a
	}
	return b
}

func TestProp(t *testing.T) {
	vt.Main(t, vt.Spec[Case]{
		ID:           "C13",
		Rule:         "rapid-generated cases in five modes: (roundtrip) for every method registered in the test binary (puppet service with a message of every scalar kind, nested/repeated/map/oneof/enum/unknown fields, plus the repository's own test services) and both directions a reflectively generated payload and metadata (any message id, status with any code/text/Any details) must survive Marshal+Unmarshal with equal content and the right type; (decode) frames derived from valid ones by structure-aware mutation (truncation at boundaries, hostile/short/long length prefixes, swapped or spliced sections, method replaced by the name of every non-method registry entity / unknown / empty / long / non-UTF-8 names, byte flips) and plain noise must never panic; (e2e-frame) the same frames written raw to a live server's NodeStream must not panic its stream goroutine and a following probe must be answered; (e2e-client) a raw grpc server without gorums code answers the first request of a fresh manager (RPC, quorum, per-node, custom-type, async, correctable, stream, unicast or multicast call) with a generated response-direction frame (every mutation of the decode mode; message id that of the call in 3 of 4 cases) and every later request with a well-formed reply: the call may fail or succeed but nothing may panic or crash the client process, and a later RPC to the node must be answered; (e2e-status) 1-6 consecutive RPCs to one node through one manager whose handlers fail with generated codes 1-16 and messages (empty, multi-line, non-ASCII, random), returned as a status error or wrapped (%w once or twice, errors.Join), or succeed (after and between failures): every status code and message must reach its caller unchanged and without details, and a success must arrive as a success. Non-trivial = payload with a populated non-scalar field or status with details (roundtrip), a frame that differs from a valid one but is not noise (decode/e2e-frame), every e2e-status case",
		Gen:          gen,
		Run:          run,
		TrackCurrent: true,
		TrackIf:      func(c Case) bool { return strings.HasPrefix(c.Mode, "e2e") },
	})
}
