// C17 — generated stubs bind methods correctly; committed generated code is current.
//
// Part 1 (differential, exhaustive over a finite set): for every
// *_gorums.pb.go under /repo the descriptor embedded in the sibling *.pb.go is
// extracted from source, fed with its dependencies to the working tree's plugin
// with the parameter the Makefiles use (paths=source_relative; dev=true for the
// per-call-type zorums files) and the output is compared with the committed
// file comments aside (token sequences without comments). template_static.go
// is compared the same way (the code inside the staticCode string as Go tokens
// without comments) with what `protoc-gen-gorums --bundle` writes to a copy.
// A part-1 case names one file (drawn by index) but the verdict is taken from a
// sweep over all files, done once per process, so the part is exhaustive
// whenever it is drawn at all.
//
// Part 2 (generated programs): batches of documented-legal definitions of the
// C16 generator; next to each generated package a driver (gen.DriverSource) is
// emitted that runs three servers implementing the generated server interface
// over loopback TCP, a recording QuorumSpec and one call per method through the
// generated stub; packages and drivers of a batch are compiled and linked
// together and every driver is run. Oracle: gen.CheckDriverLog.
package c17

import (
	"bytes"
	"context"
	"encoding/json"
	"fmt"
	"os"
	"os/exec"
	"path"
	"path/filepath"
	"regexp"
	"sort"
	"strings"
	"sync"
	"testing"
	"time"

	"pgregory.net/rapid"

	"verif/gen"
	"verif/vt"
)

// Case is either one committed file (part 1) or a batch of definitions (part 2).
type Case struct {
	Part int       `json:"part"`
	Path string    `json:"path,omitempty"`
	Defs []gen.Def `json:"defs,omitempty"`
}

// withoutDeclaredRPC returns a copy of d in which methods whose only call type option is rpc carry none.
func withoutDeclaredRPC(d gen.Def) gen.Def {
	var c gen.Def
	b, _ := json.Marshal(d)
	_ = json.Unmarshal(b, &c)
	for si := range c.File.Services {
		for mi := range c.File.Services[si].Methods {
			m := &c.File.Services[si].Methods[mi]
			if m.RPC && len(gen.CallTypesOf(*m)) == 1 {
				m.RPC = false
			}
		}
	}
	return c
}

const staticTemplate = "cmd/protoc-gen-gorums/gengorums/template_static.go"

// ---------------------------------------------------------------- part 1

type fileResult struct {
	key          string // "" = current
	msg          string
	inconclusive string
}

var (
	indexOnce sync.Once
	repoIndex *gen.RepoFiles
	indexErr  error
	partFiles []string

	sweepOnce sync.Once
	sweep     map[string]fileResult
)

func loadIndex() {
	indexOnce.Do(func() {
		tl := gen.DefaultTools()
		repoIndex, indexErr = gen.IndexRepo(tl.Repo)
		if indexErr != nil {
			return
		}
		partFiles = append(partFiles, repoIndex.Gorums...)
		partFiles = append(partFiles, staticTemplate)
		sort.Strings(partFiles)
	})
}

func doSweep() {
	sweepOnce.Do(func() {
		tl := gen.DefaultTools()
		sweep = map[string]fileResult{}
		dirs := map[string]bool{}
		for _, g := range repoIndex.Gorums {
			dirs[path.Dir(g)] = true
		}
		for dir := range dirs {
			var committed []string
			for _, g := range repoIndex.Gorums {
				if path.Dir(g) == dir {
					committed = append(committed, g)
				}
			}
			reg, err := repoIndex.RegenerateDir(tl, dir)
			if err != nil {
				for _, g := range committed {
					sweep[g] = fileResult{inconclusive: err.Error()}
				}
				continue
			}
			if reg.Err != "" {
				for _, g := range committed {
					sweep[g] = fileResult{key: "C17/stale/" + g, msg: reg.Err}
				}
				continue
			}
			for _, g := range committed {
				b := path.Base(g)
				out, ok := reg.Emitted[b]
				if !ok {
					sweep[g] = fileResult{key: "C17/stale/" + g, msg: fmt.Sprintf("the working tree's plugin (parameter %q) emits no file of this name for the descriptors embedded in %s/*.pb.go", reg.Param, dir)}
					continue
				}
				old, err := os.ReadFile(filepath.Join(tl.Repo, filepath.FromSlash(g)))
				if err != nil {
					sweep[g] = fileResult{inconclusive: err.Error()}
					continue
				}
				d, err := gen.GoTokenDiff("committed/"+b, old, "regenerated/"+b, []byte(out))
				switch {
				case err != nil:
					sweep[g] = fileResult{key: "C17/stale/" + g, msg: "not comparable: " + err.Error()}
				case d != "":
					sweep[g] = fileResult{key: "C17/stale/" + g, msg: fmt.Sprintf("committed file differs from what the plugin generates from %s with %q: %s", reg.Sources[b], reg.Param, d)}
				default:
					sweep[g] = fileResult{}
				}
			}
			// emitted but not committed: the committed set of this directory is incomplete
			var extra []string
			for b := range reg.Emitted {
				found := false
				for _, g := range committed {
					if path.Base(g) == b {
						found = true
					}
				}
				if !found {
					extra = append(extra, b)
				}
			}
			sort.Strings(extra)
			for _, b := range extra {
				g := dir + "/" + b
				sweep[g] = fileResult{key: "C17/stale/" + g, msg: "the plugin generates this file but it is not committed next to its siblings"}
			}
		}
		// the bundled static template
		before, _ := gen.RepoStatus(tl)
		fresh, err := gen.Bundle(tl)
		after, _ := gen.RepoStatus(tl)
		switch {
		case err != nil:
			sweep[staticTemplate] = fileResult{inconclusive: err.Error()}
		case before != after:
			sweep[staticTemplate] = fileResult{inconclusive: fmt.Sprintf("git status of the repository changed while bundling (concurrent edit?): %q -> %q", before, after)}
		default:
			old, err := os.ReadFile(filepath.Join(tl.Repo, filepath.FromSlash(staticTemplate)))
			if err != nil {
				sweep[staticTemplate] = fileResult{inconclusive: err.Error()}
				break
			}
			d, err := gen.StaticTemplateDiff("committed/template_static.go", old, "bundled/template_static.go", fresh)
			switch {
			case err != nil:
				sweep[staticTemplate] = fileResult{key: "C17/stale/" + staticTemplate, msg: "not comparable: " + err.Error()}
			case d != "":
				sweep[staticTemplate] = fileResult{key: "C17/stale/" + staticTemplate, msg: "committed template differs from what --bundle produces from cmd/protoc-gen-gorums/dev: " + d}
			default:
				sweep[staticTemplate] = fileResult{}
			}
		}
	})
}

func runPart1(c Case) vt.Verdict {
	loadIndex()
	if indexErr != nil {
		return vt.Verdict{OK: true, Inconclusive: true, Msg: "harness: " + indexErr.Error(), Classes: []string{"harness-trouble"}}
	}
	if err := gen.DefaultTools().Check(); err != nil {
		return vt.Verdict{OK: true, Inconclusive: true, Msg: "harness: " + err.Error(), Classes: []string{"harness-trouble"}}
	}
	doSweep()
	// all files, the case's own first
	var order []string
	for g := range sweep {
		order = append(order, g)
	}
	sort.Strings(order)
	for i, g := range order {
		if g == c.Path {
			order = append(append([]string{}, order[i:]...), order[:i]...)
			break
		}
	}
	known := knownKeys()
	classes := []string{"part1", "part1:files=" + fmt.Sprint(len(order))}
	var firstKnown *fileResult
	inconclusive := ""
	for _, g := range order {
		r := sweep[g]
		switch {
		case r.inconclusive != "":
			if inconclusive == "" {
				inconclusive = g + ": " + r.inconclusive
			}
		case r.key == "":
			if g == c.Path {
				classes = append(classes, "part1:current")
			}
		case known[r.key]:
			if firstKnown == nil {
				rr := r
				firstKnown = &rr
			}
			classes = append(classes, "excluded-known:"+r.key)
		default:
			return vt.Verdict{OK: false, Key: r.key, Msg: r.msg, Classes: classes}
		}
	}
	if firstKnown != nil && !inlineKnown() {
		return vt.Verdict{OK: false, Key: firstKnown.key, Msg: firstKnown.msg, Classes: classes}
	}
	if inconclusive != "" {
		return vt.Verdict{OK: true, Inconclusive: true, Msg: "harness: " + inconclusive, Classes: append(classes, "harness-trouble")}
	}
	return vt.Verdict{OK: true, NonTrivial: true, Classes: classes}
}

// ---------------------------------------------------------------- part 2

func batchSize() int {
	if vt.Tier() == "thorough" {
		return 8
	}
	return 4
}

type drvRun struct {
	log      gen.DrvLog
	crash    string // the driver process died: panic text
	crashKey string
	harness  string // harness-side trouble
}

var (
	panicLine = regexp.MustCompile(`(?m)^(panic: |fatal error: )(.*)$`)
	hexRE     = regexp.MustCompile(`0x[0-9a-f]+`)
	numRE     = regexp.MustCompile(`\d+`)
)

func runDriver(bin string) drvRun {
	ctx, cancel := context.WithTimeout(context.Background(), 120*time.Second)
	defer cancel()
	cmd := exec.CommandContext(ctx, bin)
	var stdout, stderr bytes.Buffer
	cmd.Stdout, cmd.Stderr = &stdout, &stderr
	err := cmd.Run()
	var r drvRun
	if ctx.Err() != nil {
		r.harness = "driver did not finish within 120 s"
		return r
	}
	if err != nil {
		txt := stderr.String()
		m := panicLine.FindStringSubmatch(txt)
		if m == nil {
			r.harness = fmt.Sprintf("driver failed: %v: %s", err, firstN(txt, 600))
			return r
		}
		// whose frame is on top of the panicking goroutine?
		owner := ""
		for _, l := range strings.Split(txt[strings.Index(txt, m[0]):], "\n") {
			l = strings.TrimSpace(l)
			switch {
			case strings.HasPrefix(l, "github.com/relab/gorums"), regexp.MustCompile(`^scratch/p\d+\.`).MatchString(l):
				owner = l
			case strings.HasPrefix(l, "scratch/vdrv."), strings.HasPrefix(l, "main."):
				if owner == "" {
					owner = "harness:" + l
				}
			}
			if owner != "" {
				break
			}
		}
		if owner == "" || strings.HasPrefix(owner, "harness:") {
			r.harness = "driver panicked in harness code: " + firstN(txt, 800)
			return r
		}
		fn := owner
		if i := strings.Index(fn, "("); i > 0 && !strings.HasPrefix(fn, "github.com/relab/gorums.(") {
			fn = fn[:i]
		}
		fn = regexp.MustCompile(`\(0x.*$|\(\.\.\.\)$`).ReplaceAllString(fn, "")
		fn = regexp.MustCompile(`^scratch/p\d+\.`).ReplaceAllString(fn, "generated.")
		fn = strings.TrimPrefix(fn, "github.com/relab/gorums.")
		r.crash = firstN(txt[strings.Index(txt, m[0]):], 1500)
		r.crashKey = "C17/binding/driver-crash/" + fn + "/" + firstN(numRE.ReplaceAllString(hexRE.ReplaceAllString(m[2], "0x?"), "N"), 60)
		return r
	}
	lines := strings.Split(strings.TrimSpace(stdout.String()), "\n")
	if err := json.Unmarshal([]byte(lines[len(lines)-1]), &r.log); err != nil {
		r.harness = "driver output is not a log: " + firstN(stdout.String(), 300)
	}
	return r
}

func firstN(s string, n int) string {
	s = strings.TrimSpace(s)
	if len(s) > n {
		return s[:n] + " …"
	}
	return s
}

type failure struct {
	def    int
	key    string
	msg    string
	detail string
}

func runPart2(c Case) vt.Verdict {
	tl := gen.DefaultTools()
	if err := tl.Check(); err != nil {
		return vt.Verdict{OK: true, Inconclusive: true, Msg: "harness: " + err.Error(), Classes: []string{"harness-trouble"}}
	}
	harness := func(err error) vt.Verdict {
		return vt.Verdict{OK: true, Inconclusive: true, Msg: "harness: " + err.Error(), Classes: []string{"part2", "harness-trouble"}}
	}
	s, err := gen.NewScratch(tl)
	if err != nil {
		return harness(err)
	}
	defer s.Close()
	if err := s.Write("vdrv/vdrv.go", gen.VdrvSource); err != nil {
		return harness(err)
	}
	pkgs := []gen.PkgSpec{{Path: gen.ScratchModule + "/vdrv", Dir: "vdrv", Files: []string{"vdrv.go"}}}
	type item struct {
		pkg     string
		plan    gen.DriverPlan
		skipped string
	}
	items := make([]item, len(c.Defs))
	classes := []string{"part2"}
	for i, d := range c.Defs {
		d.Param = "" // the stubs are what matters here; parameters are C16's business
		pkg := fmt.Sprintf("p%d", i)
		items[i].pkg = pkg
		// a method that declares the rpc call type (option (gorums.rpc) = true, an extension of
		// gorums.proto that the documentation never shows) is judged like one that implies it
		a := gen.Analyze(withoutDeclaredRPC(d))
		if a.Label != "legal" || a.Methods == 0 || a.Invalid != "" {
			items[i].skipped = "not a documented-legal definition with methods"
			classes = append(classes, "part2:skipped-not-legal")
			continue
		}
		o := gen.RunDef(tl, d, pkg, 1, 60*time.Second)
		if o.Invalid != "" || !o.Accepted || len(o.Files) == 0 {
			// refusing or mis-generating a legal definition is C16's verdict
			items[i].skipped = "the plugin did not accept the definition"
			classes = append(classes, "part2:skipped-not-accepted")
			continue
		}
		src, plan, err := gen.DriverSource(withoutDeclaredRPC(d), pkg)
		if err != nil {
			return harness(err)
		}
		items[i].plan = plan
		written, err := s.WritePackage(&o)
		if err != nil {
			return harness(err)
		}
		if err := s.Write(pkg+"drv/main.go", src); err != nil {
			return harness(err)
		}
		var files, depFiles []string
		for rel := range written {
			switch path.Dir(rel) {
			case pkg:
				files = append(files, path.Base(rel))
			case pkg + "dep":
				depFiles = append(depFiles, path.Base(rel))
			}
		}
		sort.Strings(files)
		sort.Strings(depFiles)
		pkgs = append(pkgs, gen.PkgSpec{Path: gen.ScratchModule + "/" + pkg, Dir: pkg, Files: files})
		if len(depFiles) > 0 {
			pkgs = append(pkgs, gen.PkgSpec{Path: gen.ScratchModule + "/" + pkg + "dep", Dir: pkg + "dep", Files: depFiles})
		}
		pkgs = append(pkgs, gen.PkgSpec{Path: gen.ScratchModule + "/" + pkg + "drv", Dir: pkg + "drv", Files: []string{"main.go"}, Main: true})
	}
	errs, err := s.Compile(pkgs)
	if err != nil {
		return harness(err)
	}
	if e := errs[gen.ScratchModule+"/vdrv"]; e != "" {
		return harness(fmt.Errorf("the driver runtime does not compile: %s", firstN(e, 600)))
	}
	var fails []failure
	nontrivial := false
	runs := make([]drvRun, len(items))
	var wg sync.WaitGroup
	for i := range items {
		it := &items[i]
		if it.skipped != "" {
			continue
		}
		base := gen.ScratchModule + "/" + it.pkg
		if errs[base] != "" || errs[base+"dep"] != "" {
			// generated code that does not compile is C16's verdict
			it.skipped = "generated package does not compile"
			classes = append(classes, "part2:skipped-noncompiling")
			continue
		}
		if e := errs[base+"drv"]; e != "" && (strings.Contains(e, "imported and not used") || strings.Contains(e, "declared and not used") || strings.Contains(e, "syntax error") || strings.HasPrefix(e, gen.LinkFailed)) {
			// the driver's own bookkeeping is wrong: a harness bug, not a finding
			return harness(fmt.Errorf("the generated driver is malformed: %s [definition: %s]", firstN(e, 500), gen.DefJSON(c.Defs[i])))
		}
		if e := errs[base+"drv"]; e != "" {
			// the generated package compiles but the driver, written against the
			// documented shape of the generated API (server interface,
			// QuorumSpec, stub signatures), does not: the API does not match the
			// declared call types and options
			fails = append(fails, failure{i, "C17/binding/api-mismatch", "the driver written against the documented generated API does not compile: " + firstN(e, 700) + " [definition: " + gen.DefJSON(c.Defs[i]) + "]", ""})
			continue
		}
		wg.Add(1)
		go func(i int) {
			defer wg.Done()
			runs[i] = runDriver(filepath.Join(s.Dir, "bin", items[i].pkg+"drv"))
		}(i)
	}
	wg.Wait()
	for i, it := range items {
		if it.skipped != "" {
			continue
		}
		if errs[gen.ScratchModule+"/"+it.pkg+"drv"] != "" {
			continue
		}
		r := runs[i]
		if r.harness != "" {
			return harness(fmt.Errorf("definition %d: %s", i, r.harness))
		}
		kinds := map[string]bool{}
		for _, m := range it.plan.Methods {
			kinds[m.Kind] = true
			classes = append(classes, "part2:kind:"+m.Kind)
			if m.PerNode {
				classes = append(classes, "part2:per_node_arg")
			}
			if m.Custom {
				classes = append(classes, "part2:custom_return_type")
			}
		}
		classes = append(classes, "part2:service")
		if len(it.plan.Methods) >= 3 && len(kinds) >= 2 {
			nontrivial = true
			classes = append(classes, "part2:nontrivial-service")
		}
		if r.crash != "" {
			fails = append(fails, failure{i, r.crashKey, "the driver process crashed in library or generated code (" + strings.TrimPrefix(r.crashKey, "C17/binding/driver-crash/") + ") [definition: " + gen.DefJSON(c.Defs[i]) + "]", r.crash})
			continue
		}
		bs := gen.CheckDriverLog(it.plan, r.log)
		// clauses that depend on a (generous) wall-clock bound or on the
		// transport (a call that failed with node errors) are confirmed by a
		// second run of the same driver before they count: wall-clock time and
		// transient connection trouble are never a correctness signal on a
		// single observation
		timeBound := false
		for _, b := range bs {
			if strings.HasSuffix(b.Key, "/timeout") || strings.HasSuffix(b.Key, "/handler-not-run") || strings.HasSuffix(b.Key, "/not-called") || strings.HasSuffix(b.Key, "/call-error") {
				timeBound = true
			}
		}
		if timeBound {
			r2 := runDriver(filepath.Join(s.Dir, "bin", it.pkg+"drv"))
			if r2.harness == "" && r2.crash == "" {
				bs2 := gen.CheckDriverLog(it.plan, r2.log)
				confirmed := map[string]bool{}
				for _, b := range bs2 {
					confirmed[b.Key] = true
				}
				var keep []gen.Binding
				for _, b := range bs {
					if confirmed[b.Key] {
						keep = append(keep, b)
					}
				}
				if len(keep) < len(bs) {
					classes = append(classes, "part2:time-bound-clause-not-confirmed")
				}
				bs = keep
				runs[i] = r2
			}
		}
		for _, b := range bs {
			fails = append(fails, failure{i, b.Key, b.Msg + " [definition: " + gen.DefJSON(c.Defs[i]) + "]", b.Detail})
		}
	}
	if len(fails) == 0 {
		return vt.Verdict{OK: true, NonTrivial: nontrivial, Classes: classes}
	}
	known := knownKeys()
	sort.SliceStable(fails, func(i, j int) bool {
		if known[fails[i].key] != known[fails[j].key] {
			return !known[fails[i].key]
		}
		if fails[i].def != fails[j].def {
			return fails[i].def < fails[j].def
		}
		return fails[i].key < fails[j].key
	})
	f := fails[0]
	var allKeys []string
	seen := map[string]bool{}
	for _, x := range fails {
		if !seen[x.key] {
			seen[x.key] = true
			allKeys = append(allKeys, x.key)
		}
	}
	if known[f.key] && inlineKnown() {
		for _, k := range allKeys {
			classes = append(classes, "excluded-known:"+k)
		}
		return vt.Verdict{OK: true, NonTrivial: false, Classes: classes}
	}
	return vt.Verdict{OK: false, Key: f.key, Msg: fmt.Sprintf("definition %d: %s", f.def, f.msg), Classes: classes,
		History: map[string]any{"failing_keys": allKeys, "detail": f.detail, "log": runs[f.def].log}}
}

// ---------------------------------------------------------------- common

func knownKeys() map[string]bool {
	res := map[string]bool{}
	b, err := os.ReadFile(os.Getenv("VERIF_KNOWN"))
	if err != nil {
		return res
	}
	var ff struct {
		Findings []vt.Finding `json:"findings"`
	}
	if json.Unmarshal(b, &ff) != nil {
		return res
	}
	for _, f := range ff.Findings {
		if f.Property == "C17" && f.Status == "open" && f.Key != "" {
			res[f.Key] = true
		}
	}
	return res
}

// inlineKnown: in search mode a case whose only failures are open known
// findings passes with classes excluded-known:<key> (the rest of a batch still
// counts); in replay mode, and with VERIF_C17_INLINE_KNOWN=0, the known key is
// returned and vt does the counting.
func inlineKnown() bool {
	return os.Getenv("VERIF_MODE") != "replay" && os.Getenv("VERIF_C17_INLINE_KNOWN") != "0"
}

func genCase(t *rapid.T) Case {
	loadIndex()
	if rapid.IntRange(0, 3).Draw(t, "part") == 0 && indexErr == nil && len(partFiles) > 0 {
		return Case{Part: 1, Path: partFiles[rapid.IntRange(0, len(partFiles)-1).Draw(t, "file")]}
	}
	k := batchSize()
	sizes := []int{1, 2}
	for i := 0; i < 10; i++ {
		sizes = append(sizes, k)
	}
	n := rapid.SampledFrom(sizes).Draw(t, "batch")
	defGen := rapid.Custom(func(t *rapid.T) gen.Def { return gen.GenDef(t, gen.GenOpts{LegalOnly: true, NoDev: true}) })
	return Case{Part: 2, Defs: rapid.SliceOfN(defGen, n, n).Draw(t, "defs")}
}

func run(c Case) vt.Verdict {
	if c.Part == 1 {
		return runPart1(c)
	}
	return runPart2(c)
}

func TestProp(t *testing.T) {
	vt.Main(t, vt.Spec[Case]{
		ID:           "C17",
		Rule:         "part 1: a committed *_gorums.pb.go or template_static.go drawn by index; the verdict comes from a sweep over all such files (regenerated from the descriptor embedded in the sibling *.pb.go with the Makefiles' parameters, compared as token sequences without comments), so every file is checked whenever the part is drawn; every part-1 case is non-trivial. part 2: a batch of rapid-generated documented-legal service definitions (4 per batch quick, 8 thorough), each with a generated driver (3 servers, recording QuorumSpec, one call per method through the generated stub); non-trivial = a service with >= 3 methods of >= 2 call types (class part2:nontrivial-service counts services); distinct = distinct canonical JSON of the case",
		Gen:          genCase,
		Run:          run,
		TrackCurrent: true,
		MaxSamples:   2,
	})
}

// TestSweepReport (VERIF_C17_SWEEP=1) prints the part-1 result of every file;
// a development aid, not part of the check.
func TestSweepReport(t *testing.T) {
	if os.Getenv("VERIF_C17_SWEEP") == "" {
		t.Skip("set VERIF_C17_SWEEP=1")
	}
	loadIndex()
	if indexErr != nil {
		t.Fatal(indexErr)
	}
	t0 := time.Now()
	doSweep()
	var names []string
	for g := range sweep {
		names = append(names, g)
	}
	sort.Strings(names)
	for _, g := range names {
		r := sweep[g]
		switch {
		case r.inconclusive != "":
			fmt.Printf("INCONCLUSIVE %s: %s\n", g, r.inconclusive)
		case r.key != "":
			fmt.Printf("STALE        %s: %s\n", g, firstN(r.msg, 300))
		default:
			fmt.Printf("current      %s\n", g)
		}
	}
	fmt.Printf("%d files in %v\n", len(names), time.Since(t0))
}
