// C11 — correctable calls publish levels and values monotonically; done is final.
package c11

import (
	"context"
	"errors"
	"fmt"
	"sort"
	"sync/atomic"
	"testing"
	"time"

	"github.com/relab/gorums"
	"github.com/relab/gorums/ordering"
	"google.golang.org/protobuf/proto"
	"pgregory.net/rapid"

	"verif/puppet"
	"verif/qeng"
	"verif/scen"
	"verif/vt"
)

// NodeScript says what a node does for the subject call.
type NodeScript struct {
	// Kind: reply | error | silent. For server streams: Replies replies, then
	// the handler ends with an error (Kind error: the node "failed"), ends
	// without one (reply) or never ends (silent).
	Kind    string `json:"kind"`
	Replies int    `json:"replies,omitempty"`
	ErrCode int    `json:"err_code,omitempty"`
}

// Step is one stimulus or observation.
type Step struct {
	// Op: answer (open the next gate of Node) | cancel | watch (create Watch(Level))
	Op    string `json:"op"`
	Node  int    `json:"node,omitempty"`
	Level int    `json:"level,omitempty"`
	// NoWait (answer): the next step follows at once, without waiting for the effect of this
	// answer - with a slow quorum function the answers queue up behind the one being evaluated
	NoWait bool `json:"no_wait,omitempty"`
}

// Hostile is the second case shape: server 0 is a raw grpc server that answers the subject
// call (a server-stream correctable on all nodes) with the frames listed: "good" (a well-formed
// reply) or "foreign" (a reply that names another method; the library turns it into an error
// of that node). The other nodes are healthy and silent. Until they have failed too the call
// must not complete, whatever node 0 sends and however often.
type Hostile struct {
	Frames []string `json:"frames"`
	Kind   string   `json:"kind"`
}

type Case struct {
	Hostile *Hostile           `json:"hostile,omitempty"`
	N       int                `json:"n"`
	Mgr     scen.MgrOpts       `json:"mgr"`
	Cfg     []int              `json:"cfg"`
	Call    scen.CallSpec      `json:"call"`
	Nodes   map[int]NodeScript `json:"nodes"`
	Steps   []Step             `json:"steps"`
}

var corrKinds = []string{"Corr", "CorrPerNode", "CorrCustom", "CorrCombo", "CorrStream", "CorrStreamPerNode", "CorrStreamCustom", "CorrStreamCombo"}

func genHostile(t *rapid.T) Case {
	c := Case{N: rapid.IntRange(2, 3).Draw(t, "n"), Mgr: qeng.GenMgr(t, false)}
	h := &Hostile{Kind: rapid.SampledFrom([]string{"CorrStream", "CorrStreamCustom", "CorrStreamPerNode", "CorrStreamCombo"}).Draw(t, "kind")}
	k := rapid.IntRange(1, 5).Draw(t, "nframes")
	for i := 0; i < k; i++ {
		h.Frames = append(h.Frames, rapid.SampledFrom([]string{"good", "foreign", "foreign"}).Draw(t, fmt.Sprintf("frame%d", i)))
	}
	c.Hostile = h
	return c
}

// runHostile: see Hostile.
func runHostile(c Case) vt.Verdict {
	h := c.Hostile
	cl := scen.NewCluster(c.N, 0)
	defer cl.Shutdown()
	var first int32
	sent := make(chan struct{})
	srv := scen.StartHostileServer(cl, func(n int32, req *gorums.Message) [][]byte {
		if req.Metadata.GetMethod() == "puppet.Puppet.RPC" || !atomic.CompareAndSwapInt32(&first, 0, 1) {
			return nil // probes and later requests: a well-formed reply
		}
		var tok uint64
		if r, ok := req.Message.(*puppet.Req); ok {
			tok = r.GetToken()
		}
		var out [][]byte
		for _, f := range h.Frames {
			method := req.Metadata.GetMethod()
			if f == "foreign" {
				method = "puppet.Puppet.QC"
			}
			b, err := gorums.NewCodec().Marshal(&gorums.Message{Metadata: &ordering.Metadata{MessageID: req.Metadata.GetMessageID(), Method: method}, Message: &puppet.Rep{Token: tok, Level: 1}})
			if err == nil {
				out = append(out, b)
			}
		}
		time.AfterFunc(20*time.Millisecond, func() { close(sent) })
		return out
	})
	defer srv.Stop()
	for i := 1; i < c.N; i++ {
		cl.Start(i)
	}
	client, err := scen.NewClient(cl, c.Mgr)
	if err != nil {
		return vt.Verdict{OK: true, Inconclusive: true, Msg: err.Error(), Classes: []string{"setup-error"}}
	}
	defer func() {
		cl.OpenAll()
		for _, call := range client.Calls() {
			call.Cancel()
		}
		client.Close(scen.B)
	}()
	tok := scen.NewTokens(1)
	spec := scen.CallSpec{Kind: h.Kind, Ctx: "cancel", Script: scen.QScript{Kind: "threshold", Q: 1000}}
	call := client.NewCall(0, tok, 1, spec)
	for s := 1; s < c.N; s++ {
		cl.SetBehaviour(s, tok, scen.Behaviour{Stream: []scen.StreamItem{{Level: 1, Gate: true}}, EndGate: true})
	}
	call.Issue()
	if call.Corr == nil || call.Raw == nil {
		return vt.Fail("C11/corrstream/no-correctable", "the stub returned no correctable object")
	}
	select {
	case <-sent:
	case <-time.After(scen.B):
		return vt.Verdict{OK: true, Inconclusive: true, Msg: "the request did not reach the raw server"}
	}
	// every healthy node has the request but has said nothing yet
	if !cl.Log.WaitFor(scen.B, func(evs []scen.Event) bool {
		return scen.Count(evs, func(e scen.Event) bool { return e.Kind == "enter" && e.Token == tok }) >= c.N-1
	}) {
		return vt.Verdict{OK: true, Inconclusive: true, Msg: "the request did not reach the healthy servers"}
	}
	time.Sleep(5 * time.Millisecond)
	nforeign := 0
	for _, f := range h.Frames {
		if f == "foreign" {
			nforeign++
		}
	}
	classes := []string{"hostile-node", fmt.Sprintf("foreign-replies=%d", nforeign), "kind=" + h.Kind}
	if isClosed(call.Raw.Done()) {
		_, _, err := call.Raw.Get()
		return vt.Verdict{OK: false, Key: "C11/corrstream/completed-early/hostile-node", History: cl.Log.Snapshot(), Classes: classes,
			Msg: fmt.Sprintf("%s on %d nodes completed (error: %v) after node 0 had answered with %v although the quorum function never reported done, the context is live and the other %d nodes have neither failed nor answered", h.Kind, c.N, err, h.Frames, c.N-1)}
	}
	// the healthy nodes fail: if node 0 has failed too (a reply that named another method), every node has failed
	for s := 1; s < c.N; s++ {
		cl.Stop(s)
	}
	if nforeign > 0 {
		r, sig := scen.Await(call.Raw.Done(), scen.B)
		if r == scen.Hung {
			return vt.Verdict{OK: false, Key: "C11/corrstream/not-completed/hostile-node/" + sig, History: cl.Log.Snapshot(), Classes: classes,
				Msg: fmt.Sprintf("%s on %d nodes: node 0 answered with %v and the other nodes' servers were stopped - every node has failed - but the call did not complete within 2x%v: %s", h.Kind, c.N, h.Frames, scen.B, sig)}
		}
		if r == scen.Late {
			return vt.Verdict{OK: true, Inconclusive: true, Msg: "completed late", Classes: classes}
		}
		if _, _, err := call.Raw.Get(); !errors.Is(err, gorums.Incomplete) {
			return vt.Verdict{OK: false, Key: "C11/corrstream/wrong-completion/hostile-node", History: cl.Log.Snapshot(), Classes: classes,
				Msg: fmt.Sprintf("%s: every node has failed, the call must end Incomplete, got %v", h.Kind, err)}
		}
	} else {
		time.Sleep(5 * time.Millisecond)
		if isClosed(call.Raw.Done()) {
			_, _, err := call.Raw.Get()
			return vt.Verdict{OK: false, Key: "C11/corrstream/completed-early/hostile-node", History: cl.Log.Snapshot(), Classes: classes,
				Msg: fmt.Sprintf("%s on %d nodes completed (error: %v) although node 0 has only replied (%v) and has not failed", h.Kind, c.N, err, h.Frames)}
		}
	}
	return vt.Pass(nforeign >= 1, classes...)
}

func gen(t *rapid.T) Case {
	if rapid.IntRange(0, 11).Draw(t, "shape") == 0 {
		return genHostile(t)
	}
	n := rapid.IntRange(1, 5).Draw(t, "n")
	c := Case{N: n, Mgr: qeng.GenMgr(t, false), Nodes: map[int]NodeScript{}}
	size := rapid.IntRange(1, n).Draw(t, "cfgSize")
	if s2 := rapid.IntRange(1, n).Draw(t, "cfgSize2"); s2 > size {
		size = s2
	}
	perm := rapid.Permutation(seqInts(n)).Draw(t, "cfgPerm")
	c.Cfg = append([]int(nil), perm[:size]...)
	sort.Ints(c.Cfg)
	kind := rapid.SampledFrom(corrKinds).Draw(t, "kind")
	stream := scen.IsStream(kind)
	c.Call = scen.CallSpec{Kind: kind}
	targets := append([]int(nil), c.Cfg...)
	if scen.HasPerNode(kind) {
		c.Call.PerNode = map[int]string{}
		var kept []int
		for _, s := range c.Cfg {
			if len(c.Cfg) > 1 && rapid.IntRange(0, 4).Draw(t, fmt.Sprintf("skip%d", s)) == 0 {
				c.Call.PerNode[s] = "skip"
				continue
			}
			if rapid.Bool().Draw(t, fmt.Sprintf("tagged%d", s)) {
				c.Call.PerNode[s] = fmt.Sprintf("tag:%d", rapid.IntRange(1, 9).Draw(t, fmt.Sprintf("tag%d", s)))
			}
			kept = append(kept, s)
		}
		if len(kept) == 0 {
			delete(c.Call.PerNode, c.Cfg[0])
			kept = []int{c.Cfg[0]}
		}
		targets = kept
	}
	// node scripts and the multiset of gates to open
	var gates []int // one entry per gate: the node it belongs to
	totalReplies := 0
	for _, s := range targets {
		ns := NodeScript{Kind: rapid.SampledFrom([]string{"reply", "reply", "reply", "error", "silent"}).Draw(t, fmt.Sprintf("plan%d", s))}
		if ns.Kind == "error" {
			ns.ErrCode = rapid.SampledFrom([]int{2, 5, 10, 14}).Draw(t, fmt.Sprintf("code%d", s))
		}
		if stream {
			ns.Replies = rapid.IntRange(0, 4).Draw(t, fmt.Sprintf("replies%d", s))
			for i := 0; i < ns.Replies; i++ {
				gates = append(gates, s)
			}
			totalReplies += ns.Replies
			if ns.Kind != "silent" {
				gates = append(gates, s) // the end gate
			}
		} else if ns.Kind != "silent" {
			gates = append(gates, s)
			if ns.Kind == "reply" {
				totalReplies++
			}
		}
		c.Nodes[s] = ns
	}
	// level script: by invocation index, arbitrary (non-monotone, repeated) levels, done anywhere or nowhere
	rows := rapid.IntRange(1, max(1, totalReplies)).Draw(t, "rows")
	sc := scen.QScript{Kind: "table"}
	doneMode := rapid.SampledFrom([]string{"never", "never", "last", "random"}).Draw(t, "doneMode")
	for i := 0; i < rows; i++ {
		lv := rapid.IntRange(0, 8).Draw(t, fmt.Sprintf("level%d", i))
		switch rapid.IntRange(0, 7).Draw(t, fmt.Sprintf("mono%d", i)) {
		case 0, 1, 2:
			lv = i // a monotone stretch
		case 3:
			// the extremes: LevelNotSet (-1) itself, below it, far above
			lv = rapid.SampledFrom([]int{gorums.LevelNotSet, gorums.LevelNotSet, -7, 1 << 40}).Draw(t, fmt.Sprintf("xlevel%d", i))
		}
		d := false
		switch doneMode {
		case "last":
			d = i == rows-1
		case "random":
			d = rapid.IntRange(0, 3).Draw(t, fmt.Sprintf("done%d", i)) == 0
		}
		sc.Table = append(sc.Table, scen.QStep{Level: lv, Done: d})
	}
	if rapid.IntRange(0, 6).Draw(t, "slowqf") == 0 {
		sc.SlowUs = rapid.SampledFrom([]int{300, 2000}).Draw(t, "slowUs")
	}
	c.Call.Script = sc
	c.Call.Ctx = rapid.SampledFrom([]string{"cancel", "cancel", "background"}).Draw(t, "ctx")
	// steps: the gates in a generated order, watches at generated points, maybe a cancel
	var steps []Step
	if len(gates) > 0 {
		order := rapid.Permutation(gates).Draw(t, "order")
		cut := len(order)
		if rapid.IntRange(0, 4).Draw(t, "cutQ") == 0 {
			cut = rapid.IntRange(0, len(order)).Draw(t, "cut")
		}
		// bursts: answers released without waiting for each other's effect while the quorum function
		// takes its time, so that replies and errors queue up behind the reply being evaluated
		burst := rapid.IntRange(0, 3).Draw(t, "burst") == 0
		if burst {
			c.Call.Script.SlowUs = rapid.SampledFrom([]int{1000, 3000}).Draw(t, "burstSlowUs")
		}
		for i, s := range order[:cut] {
			st := Step{Op: "answer", Node: s}
			if burst && rapid.IntRange(0, 2).Draw(t, fmt.Sprintf("nowait%d", i)) != 0 {
				st.NoWait = true
			}
			steps = append(steps, st)
		}
	}
	nw := rapid.IntRange(0, 5).Draw(t, "nwatch")
	for i := 0; i < nw; i++ {
		pos := rapid.IntRange(0, len(steps)).Draw(t, fmt.Sprintf("wpos%d", i))
		steps = insertStep(steps, pos, Step{Op: "watch", Level: rapid.SampledFrom([]int{0, 1, 2, 3, 4, 5, 6, 7, 8, 9, 0, 1, 2, 3, 4, 5, -1, -7, 1 << 40, 1<<40 + 1}).Draw(t, fmt.Sprintf("wlevel%d", i))})
	}
	if c.Call.Ctx == "cancel" && rapid.IntRange(0, 2).Draw(t, "doCancel") == 0 {
		pos := rapid.IntRange(0, len(steps)).Draw(t, "cancelPos")
		steps = insertStep(steps, pos, Step{Op: "cancel"})
	}
	// a node's server is stopped at a generated position: before it answered (it then counts as a
	// node that failed), or after it answered (a plain call must not hear of the node twice)
	if rapid.IntRange(0, 3).Draw(t, "doStop") == 0 {
		s := rapid.SampledFrom(targets).Draw(t, "stopNode")
		pos := rapid.IntRange(0, len(steps)).Draw(t, "stopPos")
		steps = insertStep(steps, pos, Step{Op: "stop", Node: s})
	}
	// an answer that is not waited for is followed at once by another answer (the last one of a
	// burst is waited for): a stop, cancel or watch in between would race with the released reply
	for i := range steps {
		if steps[i].NoWait && (i+1 >= len(steps) || steps[i+1].Op != "answer") {
			steps[i].NoWait = false
		}
	}
	c.Steps = steps
	return c
}

func insertStep(steps []Step, pos int, s Step) []Step {
	out := make([]Step, 0, len(steps)+1)
	out = append(out, steps[:pos]...)
	out = append(out, s)
	return append(out, steps[pos:]...)
}

func seqInts(n int) []int {
	s := make([]int, n)
	for i := range s {
		s[i] = i
	}
	return s
}

func max(a, b int) int {
	if a > b {
		return a
	}
	return b
}

// model of a correctable
type model struct {
	nonce    uint64 // nonce of the published value (0 = none)
	level    int
	done     bool
	errClass string // "" | incomplete | ctx
	altLevel int    // done with a level below the published one: either level may be shown
	nqf      int    // quorum-function events consumed
	levels   int    // number of distinct published levels before completion
}

// sample is one observation of the correctable.
type sample struct {
	nonce      uint64
	hasValue   bool
	level      int
	errClass   string
	errText    string
	done       bool
	typedPanic string
	typedNonce uint64
	typedLevel int
	typedHas   bool
	vtype      string
}

func nonceOf(m proto.Message) (uint64, bool, string) {
	switch v := m.(type) {
	case nil:
		return 0, false, ""
	case *puppet.Rep:
		if v == nil {
			return 0, false, "Rep"
		}
		return v.GetNonce(), true, "Rep"
	case *puppet.Custom:
		if v == nil {
			return 0, false, "Custom"
		}
		return v.GetNonce(), true, "Custom"
	}
	return 0, true, fmt.Sprintf("%T", m)
}

func classify(err error) string {
	switch {
	case err == nil:
		return ""
	case errors.Is(err, gorums.Incomplete):
		return "incomplete"
	case errors.Is(err, context.Canceled), errors.Is(err, context.DeadlineExceeded):
		return "ctx"
	}
	return "other"
}

func observe(call *scen.Call) sample {
	var s sample
	v, lvl, err := call.Raw.Get()
	s.nonce, s.hasValue, s.vtype = nonceOf(v)
	s.level, s.errClass = lvl, classify(err)
	if err != nil {
		s.errText = err.Error()
	}
	select {
	case <-call.Corr.Done():
		s.done = true
	default:
	}
	tv, tl, _, p := call.Typed()()
	s.typedPanic = p
	s.typedNonce, s.typedHas, _ = nonceOf(tv)
	s.typedLevel = tl
	return s
}

func isClosed(ch <-chan struct{}) bool {
	select {
	case <-ch:
		return true
	default:
		return false
	}
}

type watcher struct {
	level int
	ch    <-chan struct{}
}

func run(c Case) vt.Verdict {
	if c.Hostile != nil {
		return runHostile(c)
	}
	kind := c.Call.Kind
	stream := scen.IsStream(kind)
	fam := "corr"
	if stream {
		fam = "corrstream"
	}
	k := func(clause string) string { return "C11/" + fam + "/" + clause }
	cl := scen.NewCluster(c.N, 0)
	defer cl.Shutdown()
	for i := 0; i < c.N; i++ {
		cl.Start(i)
	}
	client, err := scen.NewClient(cl, c.Mgr)
	if err != nil {
		return vt.Verdict{OK: true, Inconclusive: true, Msg: err.Error(), Classes: []string{"setup-error"}}
	}
	defer func() {
		cl.OpenAll()
		for _, call := range client.Calls() {
			call.Cancel()
		}
		client.Close(scen.B)
	}()
	spec := c.Call
	ci, err := client.AddConfig(c.Cfg)
	if err != nil {
		return vt.Verdict{OK: true, Inconclusive: true, Msg: err.Error(), Classes: []string{"setup-error"}}
	}
	spec.Config = ci
	tok := scen.NewTokens(1)
	call := client.NewCall(0, tok, 1, spec)
	for _, s := range call.Targets {
		ns := c.Nodes[s]
		b := scen.Behaviour{}
		if ns.Kind == "error" {
			b.ErrCode, b.ErrMsg = ns.ErrCode, "scripted failure"
		}
		if stream {
			for i := 0; i < ns.Replies; i++ {
				b.Stream = append(b.Stream, scen.StreamItem{Level: int32(i + 1), Gate: true})
			}
			b.EndGate = true
		} else {
			b.Gate = true
		}
		cl.SetBehaviour(s, tok, b)
	}
	call.Issue() // returns at once with the correctable
	if call.Corr == nil || call.Raw == nil {
		return vt.Fail(k("no-correctable"), "the stub returned no correctable object")
	}
	fail := func(key, f string, a ...any) vt.Verdict {
		return vt.Verdict{OK: false, Key: key, Msg: fmt.Sprintf(f, a...), History: cl.Log.Snapshot()}
	}
	var m model
	m.level = gorums.LevelNotSet
	var watchers []watcher
	cancelled := false
	nextGate := map[int]int{} // stream: next gate index per node
	bursts := false
	_ = bursts
	answeredReplies := 0 // replies that have been released so far (each causes one quorum-function invocation while the call is live)
	exitsExpected := map[int]bool{}
	stopped := map[int]bool{} // servers stopped by a step: the node has failed (if it had not answered before)
	lastLevel := gorums.LevelNotSet
	nonMonotone := false
	ctxBetween := false

	// check compares one observation with the model (after the library had time to publish)
	check := func(where string) *vt.Verdict {
		deadline := time.Now().Add(3 * time.Second)
		var s sample
		var why string
		for {
			s = observe(call)
			why = ""
			switch {
			case s.typedPanic != "":
				why = "typed-get-panic"
			case m.done != s.done:
				why = "done-flag"
			case !m.done && (s.level != m.level):
				why = "level"
			case !m.done && m.nonce != 0 && (!s.hasValue || s.nonce != m.nonce):
				why = "value"
			case !m.done && m.nonce == 0 && s.hasValue:
				why = "value-before-any-level"
			case !m.done && s.errClass != "":
				why = "error-before-completion"
			case m.done && m.errClass == "" && ((s.level != m.level && s.level != m.altLevel) || !s.hasValue || s.nonce != m.nonce || s.errClass != ""):
				why = "final-value"
			case m.done && m.errClass != "" && s.errClass != m.errClass:
				why = "final-error"
			}
			if why == "" {
				for _, w := range watchers {
					closed := isClosed(w.ch)
					wantClosed := m.done || w.level <= m.level
					if closed != wantClosed {
						why = "watcher"
						if closed {
							why = "watcher-released-early"
						}
					}
				}
			}
			if why == "" || time.Now().After(deadline) {
				break
			}
			time.Sleep(200 * time.Microsecond)
		}
		if why != "" {
			var msg string
			switch why {
			case "typed-get-panic":
				msg = fmt.Sprintf("%s: the typed Get panicked: %s", where, s.typedPanic)
			case "watcher", "watcher-released-early":
				var st []string
				for _, w := range watchers {
					st = append(st, fmt.Sprintf("Watch(%d) closed=%v", w.level, isClosed(w.ch)))
				}
				msg = fmt.Sprintf("%s: published level %d, done=%v, but %v", where, m.level, m.done, st)
			default:
				msg = fmt.Sprintf("%s: Get shows (value nonce=%d present=%v type=%s, level=%d, err=%q, done=%v); the model says (nonce=%d, level=%d, err=%q, done=%v)",
					where, s.nonce, s.hasValue, s.vtype, s.level, s.errClass, s.done, m.nonce, m.level, m.errClass, m.done)
			}
			v := fail(k(why), "%s", msg)
			return &v
		}
		// typed and raw accessors agree
		if s.typedHas != s.hasValue && s.errClass == "" || (s.typedHas && s.typedNonce != s.nonce) || s.typedLevel != s.level {
			v := fail(k("typed-get-differs"), "%s: typed Get (nonce=%d present=%v level=%d) differs from Get (nonce=%d present=%v level=%d)", where, s.typedNonce, s.typedHas, s.typedLevel, s.nonce, s.hasValue, s.level)
			return &v
		}
		if s.hasValue && s.errClass == "" {
			want := "Rep"
			if scen.IsCustom(kind) {
				want = "Custom"
			}
			if s.vtype != want {
				v := fail(k("value-type"), "%s: Get holds a %s, the call's return type is %s", where, s.vtype, want)
				return &v
			}
		}
		if s.level < lastLevel && !(m.done && m.errClass == "") {
			v := fail(k("level-decreased"), "%s: observed level went from %d to %d", where, lastLevel, s.level)
			return &v
		}
		lastLevel = s.level
		return nil
	}

	// advance consumes new quorum-function events and completion conditions into the model
	advance := func() {
		evs := cl.Log.Snapshot()
		var qfs []scen.Event
		exits := map[int]scen.Event{}
		for _, e := range evs {
			if e.Token != tok {
				continue
			}
			if e.Kind == "qf" {
				qfs = append(qfs, e)
			}
			if e.Kind == "exit" {
				exits[e.Server] = e
			}
		}
		for ; m.nqf < len(qfs); m.nqf++ {
			q := qfs[m.nqf]
			if m.done {
				continue
			}
			if q.Done {
				m.altLevel = q.Level
				if m.level > q.Level {
					m.altLevel = m.level
				}
				m.done, m.nonce, m.level = true, q.Nonce, q.Level
				continue
			}
			if q.Level > m.level {
				m.nonce, m.level = q.Nonce, q.Level
				m.levels++
			} else {
				nonMonotone = true
			}
		}
		if m.done {
			return
		}
		if cancelled {
			m.done, m.errClass = true, "ctx"
			return
		}
		// exhaustion
		all := true
		for _, s := range call.Targets {
			e, ok := exits[s]
			if (!ok || (stream && e.ErrCode == 0)) && !stopped[s] {
				all = false
			}
		}
		if all {
			m.done, m.errClass = true, "incomplete"
		}
	}

	if v := check("before any reply"); v != nil {
		return *v
	}
	// the script starts when every targeted handler has been entered
	cl.Log.WaitFor(2*time.Second, func(evs []scen.Event) bool {
		return scen.Count(evs, func(e scen.Event) bool { return e.Token == tok && e.Kind == "enter" }) >= len(call.Targets)
	})
	for si, st := range c.Steps {
		where := fmt.Sprintf("after step %d (%s)", si, st.Op)
		switch st.Op {
		case "watch":
			watchers = append(watchers, watcher{level: st.Level, ch: call.Corr.Watch(st.Level)})
		case "cancel":
			if spec.Ctx == "cancel" && !cancelled {
				if !m.done && m.levels > 0 {
					ctxBetween = true
				}
				cancelled = true
				call.Cancel()
				// the completion must be observed before the next stimulus, otherwise a
				// reply released next could legitimately be processed first
				if r, sig := scen.Await(call.DoneCh(), scen.B); r == scen.Hung {
					return fail(k("never-completes/"+sig), "the correctable did not complete after its context was cancelled: %s", sig)
				}
			}
		case "stop":
			if stopped[st.Node] {
				continue
			}
			stopped[st.Node] = true
			cl.Stop(st.Node)
			time.Sleep(300 * time.Microsecond) // a connection failure has no observable arrival; check polls
		case "answer":
			s := st.Node
			if stopped[s] {
				continue // the server is gone: nothing can be released any more
			}
			ns := c.Nodes[s]
			isReply := false
			if stream {
				g := nextGate[s]
				nextGate[s]++
				if g < ns.Replies {
					isReply = true
				} else {
					exitsExpected[s] = true
				}
				cl.Open(s, tok, g)
			} else {
				isReply = ns.Kind == "reply"
				exitsExpected[s] = true
				cl.Open(s, tok, -1)
			}
			if isReply {
				answeredReplies++
			}
			if st.NoWait {
				bursts = true
				continue // the next step follows at once; a later step waits for the effects of all of them
			}
			// wait for the observable effect
			wantQF := answeredReplies
			cl.Log.WaitFor(time.Second, func(evs []scen.Event) bool {
				nq := 0
				ex := map[int]bool{}
				for _, e := range evs {
					if e.Token != tok {
						continue
					}
					if e.Kind == "qf" {
						nq++
					}
					if e.Kind == "exit" {
						ex[e.Server] = true
					}
				}
				if m.done || cancelled {
					// no further invocations are expected; only handler exits can be awaited
					for s := range exitsExpected {
						if !ex[s] {
							return false
						}
					}
					return true
				}
				if nq < wantQF {
					return false
				}
				for s := range exitsExpected {
					if !ex[s] {
						return false
					}
				}
				return true
			})
			if !isReply {
				time.Sleep(300 * time.Microsecond) // an error has no observable arrival; give it a moment
			}
		}
		wasDone := m.done
		advance()
		if !wasDone && !m.done && !cancelled {
			// a reply released while the call is live that has not reached the quorum function yet: wait (bounded) so the model is exact
			if m.nqf < answeredReplies {
				cl.Log.WaitFor(scen.B, func(evs []scen.Event) bool {
					return scen.Count(evs, func(e scen.Event) bool { return e.Token == tok && e.Kind == "qf" }) >= answeredReplies
				})
				advance()
				if m.nqf < answeredReplies && !m.done {
					return fail(k("reply-not-shown"), "%s: %d replies were released but the quorum function was invoked only %d times", where, answeredReplies, m.nqf)
				}
			}
		}
		if m.done && m.errClass == "incomplete" {
			// errors have no observable arrival: poll inside check handles the delay
		}
		if v := check(where); v != nil {
			return *v
		}
	}
	// end: if the call is still live, end it and check finality
	if !m.done {
		if spec.Ctx == "cancel" {
			cancelled = true
			call.Cancel()
			advance()
		} else {
			// open everything: every node answers; the model follows the log
			cl.OpenAll()
			// a stream call with a node that never fails stays open legitimately
			legitOpen := false
			if stream {
				for _, s := range call.Targets {
					if c.Nodes[s].Kind != "error" && !stopped[s] {
						legitOpen = true
					}
				}
			}
			if legitOpen {
				// wait for the released replies to reach the quorum function
				want := 0
				for _, s := range call.Targets {
					want += c.Nodes[s].Replies
				}
				cl.Log.WaitFor(300*time.Millisecond, func(evs []scen.Event) bool {
					return call.Returned() || scen.Count(evs, func(e scen.Event) bool { return e.Token == tok && e.Kind == "qf" }) >= want
				})
			} else if r, sig := scen.Await(call.DoneCh(), scen.B); r == scen.Hung {
				return fail(k("never-completes/"+sig), "the correctable did not complete although every node answered: %s", sig)
			}
			// after OpenAll the arrival order is not controlled; rebuild the model from the log alone
			time.Sleep(time.Millisecond)
			advance()
			if !m.done {
				return vt.Pass(m.levels >= 2 || nonMonotone || scen.IsCustom(kind), classes(c, m, nonMonotone, ctxBetween)...)
			}
		}
	}
	if v := check("after completion"); v != nil {
		return *v
	}
	s1 := observe(call)
	if !stream && m.errClass == "incomplete" {
		// every node has answered: the replies the call counts have all been shown to the quorum function
		if _, r, ok := qeng.ParseCounts(s1.errText); ok && r != m.nqf {
			return fail(k("replies-not-shown"), "the call ended Incomplete counting %d replies, but the quorum function was invoked only %d times: %s", r, m.nqf, s1.errText)
		}
	}
	// new watchers after completion are released at once
	for _, l := range []int{0, 3, 9} {
		if !isClosed(call.Corr.Watch(l)) {
			return fail(k("watch-after-done"), "Watch(%d) created after completion is not released", l)
		}
	}
	cl.OpenAll() // late replies must change nothing
	time.Sleep(500 * time.Microsecond)
	s2 := observe(call)
	if s1.nonce != s2.nonce || s1.hasValue != s2.hasValue || s1.level != s2.level || s1.errText != s2.errText || !s2.done {
		return fail(k("changed-after-done"), "Get changed after completion: (nonce=%d level=%d err=%q) -> (nonce=%d level=%d err=%q)", s1.nonce, s1.level, s1.errText, s2.nonce, s2.level, s2.errText)
	}
	return vt.Pass(m.levels >= 2 || nonMonotone || scen.IsCustom(kind) || ctxBetween, classes(c, m, nonMonotone, ctxBetween)...)
}

func classes(c Case, m model, nonMonotone, ctxBetween bool) []string {
	cl := []string{"kind=" + c.Call.Kind, fmt.Sprintf("published-levels=%d", m.levels)}
	for _, st := range c.Steps {
		if st.NoWait {
			cl = append(cl, "burst-of-answers")
			break
		}
	}
	if nonMonotone {
		cl = append(cl, "non-monotone-script")
	}
	if ctxBetween {
		cl = append(cl, "ctx-end-between-publications")
	}
	if m.done {
		if m.errClass == "" {
			cl = append(cl, "end=done")
		} else {
			cl = append(cl, "end="+m.errClass)
		}
	} else {
		cl = append(cl, "end=open")
	}
	return cl
}

func TestProp(t *testing.T) {
	vt.Main(t, vt.Spec[Case]{
		ID:           "C11",
		Rule:         "rapid-generated cases: a correctable or server-stream correctable call (plain, per-node, custom return type, both) on 1-5 nodes; per node a reply / error / silence (streams: 0-4 individually gated replies, then failure, normal end or silence); a level script mapping the invocation index to (level, done) with levels 0..8 and, in an eighth of the rows, an extreme (LevelNotSet = -1, -7, 2^40) - arbitrary, non-monotone, repeated, done anywhere or nowhere; an optional cancellation at any position; in a quarter of the cases one node's server is stopped at a generated position (before it answered: the node has failed; after it answered: the call must not hear of the node again); Watch(l) channels created at generated moments; after every step the correctable is observed (Get, typed Get under recover, Done, all watchers) and compared with a reference model driven by the recorded quorum-function invocations: publish on strictly higher level, final on done / exhaustion / context end, watchers at or below the published level released and the others open, nothing changes after completion, levels never decrease; non-trivial = at least 2 distinct published levels before completion, or a non-monotone script, or a custom return type, or a context end between two publications; in a quarter of the cases answers are released in bursts (no_wait) behind a quorum function that takes 1-3 ms, and a plain correctable that ends Incomplete must count exactly the replies its quorum function was shown; a second shape (a twelfth of the cases): server 0 is a raw grpc server that answers a server-stream correctable with 1-5 frames, each well-formed or naming another method, the other nodes healthy and silent - the call must not complete before they have failed too and must then end Incomplete",
		Gen:          gen,
		Run:          run,
		TrackCurrent: true,
	})
}
