// C06 — each node gets exactly its own message; one-way calls never wait for handlers.
package c06

import (
	"fmt"
	"sort"
	"testing"
	"time"

	"pgregory.net/rapid"

	"verif/qeng"
	"verif/scen"
	"verif/vt"
)

type Case struct {
	N    int           `json:"n"`
	Mgr  scen.MgrOpts  `json:"mgr"`
	Cfg  []int         `json:"cfg"`
	Call scen.CallSpec `json:"call"`
	// BlockedDial: the (single) target is down at creation and its dial blocks
	// while a no-send-waiting one-way call is made.
	BlockedDial bool `json:"blocked_dial,omitempty"`
	// CutAfter (one-way calls): once every message has been delivered, the connections to the servers
	// break (the servers keep listening); the fence then goes over new connections. A message that
	// was delivered must not be delivered again.
	CutAfter bool `json:"cut_after,omitempty"`
	// Interfere (second case shape): K one-way messages with live contexts are sent to a node
	// whose handler is blocked; then other calls whose context has ended are made on the same
	// node; all K messages must still be delivered exactly once.
	Interfere  *Interfere `json:"interfere,omitempty"`
	RecvBuffer uint       `json:"recv_buffer,omitempty"`
}

var kinds = []string{"QC", "QCPerNode", "QCCombo", "Async", "AsyncPerNode", "AsyncCombo", "Corr", "CorrPerNode", "CorrCombo",
	"CorrStreamPerNode", "Multicast", "MulticastPerNode", "MulticastPerNode", "Unicast", "QCPerNode", "MulticastPerNode"}

// Interfere describes the second case shape.
type Interfere struct {
	K          int  `json:"k"`
	Multicast  bool `json:"multicast,omitempty"` // the K messages are multicasts on a configuration instead of unicasts
	NoSendWait bool `json:"no_send_wait,omitempty"`
	Others     int  `json:"others"`
	// Mode: precancelled (the other calls' contexts end before the call is made) |
	// during-send (large requests cancelled microseconds after they were issued)
	Mode      string `json:"mode"`
	OtherKind string `json:"other_kind"`
	CancelUs  int    `json:"cancel_us,omitempty"`
}

func genInterfere(t *rapid.T) Case {
	n := rapid.IntRange(1, 3).Draw(t, "n")
	c := Case{N: n, Mgr: qeng.GenMgr(t, false)}
	c.Cfg = seqInts(n)
	c.Interfere = &Interfere{
		K:          rapid.IntRange(1, 12).Draw(t, "k"),
		Multicast:  rapid.Bool().Draw(t, "multicast"),
		NoSendWait: rapid.Bool().Draw(t, "noSendWait"),
		Others:     rapid.IntRange(1, 24).Draw(t, "others"),
		Mode:       rapid.SampledFrom([]string{"precancelled", "precancelled", "precancelled", "precancelled", "precancelled", "precancelled", "precancelled", "during-send"}).Draw(t, "mode"),
		OtherKind:  rapid.SampledFrom([]string{"Unicast", "RPC", "QC", "Multicast", "Async", "Corr"}).Draw(t, "otherKind"),
		CancelUs:   rapid.SampledFrom([]int{1, 20, 100}).Draw(t, "cancelUs"),
	}
	return c
}

func gen(t *rapid.T) Case {
	if rapid.IntRange(0, 5).Draw(t, "shape") == 0 {
		return genInterfere(t)
	}
	n := rapid.IntRange(1, 7).Draw(t, "n")
	c := Case{N: n, Mgr: qeng.GenMgr(t, false)}
	c.RecvBuffer = rapid.SampledFrom([]uint{0, 0, 4}).Draw(t, "recvBuffer")
	size := rapid.IntRange(1, n).Draw(t, "cfgSize")
	if s2 := rapid.IntRange(1, n).Draw(t, "cfgSize2"); s2 > size {
		size = s2
	}
	perm := rapid.Permutation(seqInts(n)).Draw(t, "cfgPerm")
	c.Cfg = append([]int(nil), perm[:size]...)
	sort.Ints(c.Cfg)
	kind := rapid.SampledFrom(kinds).Draw(t, "kind")
	c.Call = scen.CallSpec{Kind: kind, Payload: rapid.SampledFrom([]int{0, 8, 300, 4000}).Draw(t, "payload")}
	if kind == "Unicast" {
		c.Call.Node = rapid.SampledFrom(c.Cfg).Draw(t, "node")
	}
	ntargets := len(c.Cfg)
	if scen.HasPerNode(kind) {
		c.Call.PerNode = map[int]string{}
		mode := rapid.SampledFrom([]string{"none", "some", "some", "all", "distinct", "distinct"}).Draw(t, "perNodeMode")
		ntargets = 0
		for _, s := range c.Cfg {
			skip := mode == "all" || (mode == "some" && rapid.IntRange(0, 2).Draw(t, fmt.Sprintf("skip%d", s)) == 0)
			if skip {
				c.Call.PerNode[s] = "skip"
				continue
			}
			ntargets++
			if mode != "none" && rapid.IntRange(0, 5).Draw(t, fmt.Sprintf("empty%d", s)) == 0 {
				// the function yields a message whose fields are all at their defaults (zero bytes on the wire): a message all the same
				c.Call.PerNode[s] = "empty"
				continue
			}
			v := ""
			if mode == "distinct" || rapid.Bool().Draw(t, fmt.Sprintf("tagged%d", s)) {
				v = fmt.Sprintf("tag:%d", rapid.IntRange(1, 99).Draw(t, fmt.Sprintf("tag%d", s)))
			}
			if mode == "distinct" || rapid.IntRange(0, 3).Draw(t, fmt.Sprintf("paid%d", s)) == 0 {
				if v != "" {
					v += ","
				}
				v += fmt.Sprintf("pay:%d", rapid.SampledFrom([]int{0, 1, 17, 2500}).Draw(t, fmt.Sprintf("pay%d", s)))
			}
			if v != "" {
				c.Call.PerNode[s] = v
			}
		}
	}
	if scen.IsOneWay(kind) {
		c.Call.NoSendWait = rapid.Bool().Draw(t, "noSendWait")
		if c.Call.NoSendWait && rapid.IntRange(0, 2).Draw(t, "blockedDial") == 0 {
			// one idle node whose dial blocks; only meaningful for the first call to it. The connection
			// attempt must stay blocked for as long as the harness watches (gorums hands the back-off to
			// grpc as the connect deadline): a call that waited for the connection would not return
			c.BlockedDial = true
			c.Mgr.BackoffMs = 30000
		}
		if !c.BlockedDial && rapid.IntRange(0, 3).Draw(t, "cutAfter") == 0 {
			c.CutAfter = true
		}
	} else {
		// threshold = number of targets (success by the non-skipped nodes alone) or one more (Incomplete accounting)
		q := ntargets
		if rapid.IntRange(0, 2).Draw(t, "overQ") == 0 {
			q = ntargets + 1
		}
		c.Call.Script = scen.QScript{Kind: "threshold", Q: q}
	}
	return c
}

func seqInts(n int) []int {
	s := make([]int, n)
	for i := range s {
		s[i] = i
	}
	return s
}

// runInterfere: one-way messages that were sent with a live context are delivered although
// other calls on the node end by their context.
func runInterfere(c Case) vt.Verdict {
	in := c.Interfere
	cl := scen.NewCluster(c.N, c.RecvBuffer)
	defer cl.Shutdown()
	for i := 0; i < c.N; i++ {
		cl.Start(i)
	}
	client, err := scen.NewClient(cl, c.Mgr)
	if err != nil {
		return vt.Verdict{OK: true, Inconclusive: true, Msg: err.Error(), Classes: []string{"setup-error"}}
	}
	defer func() {
		cl.OpenAll()
		for _, call := range client.Calls() {
			call.Cancel()
		}
		client.Close(scen.B)
	}()
	base := scen.NewTokens(2 + in.K + in.Others + c.N)
	// 1. a handler on every server that blocks without releasing: the servers stop reading
	for s := 0; s < c.N; s++ {
		tok := base + uint64(1+in.K+in.Others+s)
		cl.SetBehaviour(s, tok, scen.Behaviour{Gate: true})
		b := client.NewCall(1000+s, tok, uint64(1000+s), scen.CallSpec{Kind: "Unicast", Node: s, NoSendWait: true})
		go b.Issue()
	}
	if !cl.Log.WaitFor(scen.B, func(evs []scen.Event) bool {
		return scen.Count(evs, func(e scen.Event) bool { return e.Kind == "enter" && e.Token > base+uint64(in.K+in.Others) }) >= c.N
	}) {
		return vt.Verdict{OK: true, Inconclusive: true, Msg: "blocker handlers did not start"}
	}
	// 2. K one-way messages with contexts that never end; every call returns (sent)
	kind := "Unicast"
	if in.Multicast {
		kind = "Multicast"
	}
	for i := 0; i < in.K; i++ {
		call := client.NewCall(i, base+uint64(1+i), uint64(1+i), scen.CallSpec{Kind: kind, Node: 0, Config: 0, NoSendWait: in.NoSendWait})
		go call.Issue()
		if r, _ := scen.Await(call.DoneCh(), scen.B); r != scen.Done {
			return vt.Verdict{OK: true, Inconclusive: true, Msg: "one-way call did not return"}
		}
	}
	if in.NoSendWait {
		// without send-waiting "returned" does not mean "sent": give the sender a moment
		time.Sleep(3 * time.Millisecond)
	}
	// 3. other calls on the same node(s) that end by their context
	for j := 0; j < in.Others; j++ {
		spec := scen.CallSpec{Kind: in.OtherKind, Node: 0, Config: 0, Script: scen.QScript{Kind: "threshold", Q: c.N}}
		if in.Mode == "precancelled" {
			spec.Ctx = "precancelled"
		} else {
			spec.Ctx, spec.Payload = "cancel", 200000
		}
		call := client.NewCall(100+j, base+uint64(1+in.K+j), uint64(100+j), spec)
		go call.Issue()
		if in.Mode != "precancelled" {
			time.Sleep(time.Duration(in.CancelUs) * time.Microsecond)
			call.Cancel()
		}
		if r, sig := scen.Await(call.DoneCh(), scen.B); r == scen.Hung {
			return vt.Verdict{OK: true, Inconclusive: true, Msg: "an interfering call hung (C08's subject): " + sig}
		}
	}
	time.Sleep(2 * time.Millisecond)
	// 4. the handlers are released; every message must arrive exactly once
	cl.OpenAll()
	targets := 1
	if in.Multicast {
		targets = c.N
	}
	want := in.K * targets
	isMsg := func(e scen.Event) bool { return e.Kind == "enter" && e.Token > base && e.Token <= base+uint64(in.K) }
	// fence: an RPC per node is handled after everything that was sent to the node before it
	for s := 0; s < c.N; s++ {
		for attempt := 0; attempt < 4; attempt++ {
			f := client.NewCall(2000+s, scen.NewTokens(1), uint64(2000+s), scen.CallSpec{Kind: "RPC", Node: s, Ctx: "cancel"})
			go f.Issue()
			if r, _ := scen.Await(f.DoneCh(), scen.B); r != scen.Done {
				return vt.Verdict{OK: true, Inconclusive: true, Msg: "fence RPC did not return"}
			}
			if f.Err == nil {
				break
			}
			time.Sleep(2 * time.Millisecond)
		}
	}
	ok := cl.Log.WaitFor(100*time.Millisecond, func(evs []scen.Event) bool { return scen.Count(evs, isMsg) >= want })
	evs := cl.Log.Snapshot()
	resets := scen.Count(evs, func(e scen.Event) bool { return e.Kind == "closed" })
	classes := []string{"shape=interfere", "mode=" + in.Mode, "others=" + in.OtherKind}
	if resets > 0 {
		classes = append(classes, "stream-reset-observed")
	}
	per := map[string]int{}
	for _, e := range evs {
		if isMsg(e) {
			per[fmt.Sprintf("%d/%d", e.Server, e.Token)]++
		}
	}
	for k, n := range per {
		if n > 1 {
			return vt.Verdict{OK: false, Key: "C06/oneway/duplicate-delivery", History: evs, Classes: classes, Msg: "message " + k + " was delivered more than once"}
		}
	}
	if !ok {
		got := len(per)
		return vt.Verdict{OK: false, Key: "C06/oneway/lost-after-other-calls-ended/" + in.Mode, History: evs, Classes: classes,
			Msg: fmt.Sprintf("%d of %d one-way deliveries (%s, contexts that never end, calls returned) never happened after %d other %s calls on the node ended by their context (%s); the node was reachable throughout; streams closed at the servers: %d",
				want-got, want, kind, in.Others, in.OtherKind, in.Mode, resets)}
	}
	return vt.Pass(true, classes...)
}

func run(c Case) vt.Verdict {
	if c.Interfere != nil {
		return runInterfere(c)
	}
	kind := c.Call.Kind
	oneWay := scen.IsOneWay(kind)
	fam := "twoway"
	if oneWay {
		fam = "oneway"
	}
	k := func(clause string) string { return "C06/" + fam + "/" + clause }
	cl := scen.NewCluster(c.N, c.RecvBuffer)
	defer cl.Shutdown()
	blockedSrv := -1
	if c.BlockedDial {
		// the blocked node is the unicast target or the first node of the configuration
		blockedSrv = c.Cfg[0]
		if kind == "Unicast" {
			blockedSrv = c.Call.Node
		}
	}
	for i := 0; i < c.N; i++ {
		if i != blockedSrv {
			cl.Start(i)
		}
	}
	client, err := scen.NewClient(cl, c.Mgr)
	if err != nil {
		return vt.Verdict{OK: true, Inconclusive: true, Msg: err.Error(), Classes: []string{"setup-error"}}
	}
	defer func() {
		cl.OpenAll()
		cl.Fab.UnblockAll()
		for _, call := range client.Calls() {
			call.Cancel()
		}
		client.Close(scen.B)
	}()
	spec := c.Call
	if !scen.IsNodeCall(kind) {
		ci, err := client.AddConfig(c.Cfg)
		if err != nil {
			return vt.Verdict{OK: true, Inconclusive: true, Msg: err.Error(), Classes: []string{"setup-error"}}
		}
		spec.Config = ci
	}
	tok := scen.NewTokens(4 + c.N)
	call := client.NewCall(0, tok, 1, spec)
	// every handler of the subject call is blocked while the call is made
	for s := 0; s < c.N; s++ {
		b := scen.Behaviour{Gate: true}
		if scen.IsStream(kind) {
			b.Stream = []scen.StreamItem{{Level: 1}}
			b.ErrCode, b.ErrMsg = 10, "stream over" // ends the node's stream so that the call can complete
		}
		cl.SetBehaviour(s, tok, b)
		if spec.PerNode[s] == "empty" {
			cl.SetBehaviour(s, 0, b) // this node's message carries no token
		}
	}
	// subject: the enter event belongs to the subject call (the empty per-node message has token 0)
	subject := func(e scen.Event) bool {
		return e.Token == tok || (e.Token == 0 && e.Server >= 0 && spec.PerNode[e.Server] == "empty")
	}
	if blockedSrv >= 0 {
		cl.Fab.Block(scen.Addr(blockedSrv))
	}
	go call.Issue()

	classes := []string{"kind=" + kind, fmt.Sprintf("targets=%d", len(call.Targets))}
	if oneWay {
		// one-way calls return while every targeted handler is still blocked
		r, sig := scen.Await(call.DoneCh(), scen.B)
		if r == scen.Hung {
			clause := "waits-for-handler"
			if c.Call.NoSendWait {
				clause = "no-send-waiting-waits"
			}
			return vt.Verdict{OK: false, Key: k(clause + "/" + sig), History: cl.Log.Snapshot(),
				Msg: fmt.Sprintf("%s (no_send_wait=%v, blocked dial=%v) did not return within 2x%v while the handlers were blocked: %s", kind, c.Call.NoSendWait, c.BlockedDial, scen.B, sig)}
		}
		if r == scen.Late {
			return vt.Verdict{OK: true, Inconclusive: true, Msg: "one-way call returned late"}
		}
		for _, e := range cl.Log.Snapshot() {
			if e.Kind == "exit" && subject(e) {
				return vt.Fail(k("harness"), "handler exited although its gate is closed")
			}
		}
		classes = append(classes, "returned-while-handlers-blocked")
		if c.BlockedDial {
			classes = append(classes, "blocked-dial")
			cl.Fab.UnblockAll()
		}
	}
	// expected deliveries
	type want struct {
		tag uint32
		ph  uint64
		seq uint64
	}
	expected := map[int]want{}
	for _, s := range call.Targets {
		if s == blockedSrv {
			continue // unreachable: zero deliveries
		}
		w := want{ph: scen.HashBytes(call.Req.GetPayload()), seq: 1}
		if spec.PerNode[s] == "empty" {
			w = want{ph: scen.HashBytes(nil)}
		} else if scen.HasPerNode(kind) {
			tag, pay, _ := scen.PerNodeArgs(spec, s)
			w.tag = tag
			if pay >= 0 {
				w.ph = scen.HashBytes(scen.PerNodePayload(tok, s, pay))
			}
		}
		expected[s] = w
	}
	// wait until every expected delivery has happened
	delivered := make(chan struct{})
	go func() {
		if cl.Log.WaitFor(3*scen.B, func(evs []scen.Event) bool {
			got := map[int]bool{}
			for _, e := range evs {
				if e.Kind == "enter" && subject(e) {
					got[e.Server] = true
				}
			}
			for s := range expected {
				if !got[s] {
					return false
				}
			}
			return true
		}) {
			close(delivered)
		}
	}()
	// the hang rule: not within B, re-examined after another B, with the library goroutines that stayed put
	dr, dsig := scen.Await(delivered, scen.B)
	if dr == scen.Late {
		return vt.Verdict{OK: true, Inconclusive: true, Msg: "deliveries completed late"}
	}
	if dr == scen.Hung {
		var missing []int
		got := map[int]bool{}
		for _, e := range cl.Log.Snapshot() {
			if e.Kind == "enter" && subject(e) {
				got[e.Server] = true
			}
		}
		for s := range expected {
			if !got[s] {
				missing = append(missing, s)
			}
		}
		sort.Ints(missing)
		for _, n := range client.Configs[0].Nodes() {
			dsig += fmt.Sprintf(" [node %d (server %d) last error: %v]", n.ID(), client.ServerOf(n.ID()), n.LastErr())
		}
		return vt.Verdict{OK: false, Key: k("not-delivered"), History: cl.Log.Snapshot(),
			Msg: fmt.Sprintf("%s: servers %v never received the message within 2x%v (reachable, context live); library goroutines that stayed put: %s", kind, missing, scen.B, dsig)}
	}
	if c.CutAfter && oneWay {
		classes = append(classes, "connections-cut-after-delivery")
		for s := 0; s < c.N; s++ {
			cl.Cut(s)
		}
		time.Sleep(2 * time.Millisecond)
	}
	// let the handlers answer; two-way calls must complete by the answers of the non-skipped nodes alone
	cl.OpenAll()
	if !oneWay {
		r, sig := scen.Await(call.DoneCh(), scen.B)
		if r == scen.Hung {
			return vt.Verdict{OK: false, Key: k("waits-for-skipped/" + sig), History: cl.Log.Snapshot(),
				Msg: fmt.Sprintf("%s did not complete although every non-skipped node answered: %s", kind, sig)}
		}
		if r == scen.Late {
			return vt.Verdict{OK: true, Inconclusive: true, Msg: "completed late"}
		}
	}
	// fence: an RPC to every reachable node, then a short settle, so that duplicates would have arrived
	for s := 0; s < c.N; s++ {
		if s == blockedSrv {
			continue
		}
		f := client.NewCall(1+s, tok+1+uint64(s), uint64(2+s), scen.CallSpec{Kind: "RPC", Node: s, Ctx: "cancel"})
		go f.Issue()
		if r, _ := scen.Await(f.DoneCh(), scen.B); r != scen.Done {
			return vt.Verdict{OK: true, Inconclusive: true, Msg: "fence RPC did not return"}
		}
	}
	time.Sleep(500 * time.Microsecond)
	evs := cl.Log.Snapshot()
	count := map[int]int{}
	for _, e := range evs {
		if e.Kind == "enter" && !subject(e) && (e.Token < tok || e.Token > tok+uint64(1+c.N)) {
			// a handler ran for a message that is none of this case's requests (e.g. an empty message)
			return vt.Verdict{OK: false, Key: k("unknown-message-delivered"), History: evs,
				Msg: fmt.Sprintf("%s: server %d ran handler %s for a message that is not a request of any call (token %d, payload hash %x): a node that must receive nothing received something", kind, e.Server, e.Method, e.Token, e.PayHash)}
		}
		if e.Kind != "enter" || !subject(e) {
			continue
		}
		count[e.Server]++
		w, exp := expected[e.Server]
		if !exp {
			what := "was skipped by the per-node function"
			if e.Server == blockedSrv {
				what = "is unreachable"
			}
			inCfg := false
			for _, s := range c.Cfg {
				if s == e.Server {
					inCfg = true
				}
			}
			if !inCfg || (kind == "Unicast" && e.Server != c.Call.Node) {
				what = "is not targeted by the call"
			}
			return vt.Verdict{OK: false, Key: k("delivered-to-untargeted"), History: evs, Msg: fmt.Sprintf("%s: server %d received the message although it %s", kind, e.Server, what)}
		}
		if e.Method != kind {
			return vt.Verdict{OK: false, Key: k("wrong-method"), History: evs, Msg: fmt.Sprintf("%s: server %d ran handler %s", kind, e.Server, e.Method)}
		}
		if e.Tag != w.tag || e.PayHash != w.ph || e.Seq != w.seq || (w.seq == 0 && e.Token != 0) || (w.seq == 1 && e.Token != tok) {
			return vt.Verdict{OK: false, Key: k("wrong-message"), History: evs,
				Msg: fmt.Sprintf("%s: server %d received tag=%d payload-hash=%x seq=%d, its own message has tag=%d payload-hash=%x seq=%d", kind, e.Server, e.Tag, e.PayHash, e.Seq, w.tag, w.ph, w.seq)}
		}
	}
	for s, n := range count {
		if n > 1 {
			return vt.Verdict{OK: false, Key: k("duplicate-delivery"), History: evs, Msg: fmt.Sprintf("%s: server %d received the message %d times", kind, s, n)}
		}
	}
	// two-way: outcome accounting (shared clause with C02)
	if !oneWay {
		var ret *scen.Event
		nqf := 0
		for i := range evs {
			if evs[i].Token == tok && evs[i].Kind == "return" && ret == nil {
				ret = &evs[i]
			}
			if evs[i].Token == tok && evs[i].Kind == "qf" {
				nqf++
			}
		}
		if ret != nil && !scen.IsStream(kind) && ret.Outcome != "panic" {
			nt := len(call.Targets)
			switch {
			case spec.Script.Q <= nt && nt > 0:
				if ret.Outcome != "value" {
					return vt.Verdict{OK: false, Key: k("skipped-nodes-counted"), History: evs,
						Msg: fmt.Sprintf("%s: all %d non-skipped nodes replied (threshold %d) but the call failed: %s", kind, nt, spec.Script.Q, ret.ErrText)}
				}
			default:
				if !ret.IsInc {
					return vt.Verdict{OK: false, Key: k("skipped-nodes-counted"), History: evs,
						Msg: fmt.Sprintf("%s: expected Incomplete after all %d non-skipped nodes replied (threshold %d), got %s %s", kind, nt, spec.Script.Q, ret.Outcome, ret.ErrText)}
				}
				if e, r, ok := qeng.ParseCounts(ret.ErrText); ok && (e+r != nt || r != nqf) {
					return vt.Verdict{OK: false, Key: k("skipped-nodes-counted"), History: evs,
						Msg: fmt.Sprintf("%s: errors (%d) + replies (%d) != non-skipped nodes (%d)", kind, e, r, nt)}
				}
			}
		}
	}
	nontrivial := oneWay
	if scen.HasPerNode(kind) {
		skips, distinct := 0, map[string]bool{}
		for _, s := range c.Cfg {
			v := spec.PerNode[s]
			if v == "skip" {
				skips++
			} else {
				distinct[v] = true
			}
		}
		if distinct["empty"] {
			classes = append(classes, "empty-per-node-message")
			nontrivial = true
		}
		if skips > 0 {
			classes = append(classes, "skips")
			nontrivial = true
		}
		if skips == len(c.Cfg) {
			classes = append(classes, "skip-all")
		}
		if len(distinct) >= 2 {
			classes = append(classes, "distinct-per-node")
			nontrivial = true
		}
	}
	if c.Call.NoSendWait {
		classes = append(classes, "no-send-waiting")
	}
	// The node that could not be reached comes up (its server starts, the dial is no longer
	// blocked): the same kind of one-way call, made again, must now be delivered to it as well,
	// whether or not the call waits for the send.
	if oneWay && blockedSrv >= 0 {
		cl.Start(blockedSrv)
		tok2 := tok + 2 + uint64(c.N)
		call2 := client.NewCall(60, tok2, 60, spec)
		go call2.Issue()
		if r, _ := scen.Await(call2.DoneCh(), scen.B); r != scen.Done {
			return vt.Verdict{OK: true, Inconclusive: true, Msg: "the second one-way call did not return in time"}
		}
		want := map[int]bool{}
		for _, s := range call2.Targets {
			if spec.PerNode[s] != "empty" { // an empty message carries no token: the second one cannot be told from the first
				want[s] = true
			}
		}
		arrived := make(chan struct{})
		go func() {
			if cl.Log.WaitFor(3*scen.B, func(evs []scen.Event) bool {
				n := 0
				for _, e := range evs {
					if e.Kind == "enter" && e.Token == tok2 && want[e.Server] {
						n++
					}
				}
				return n >= len(want)
			}) {
				close(arrived)
			}
		}()
		if r, sig := scen.Await(arrived, scen.B); r == scen.Hung {
			got := map[int]bool{}
			for _, e := range cl.Log.Snapshot() {
				if e.Kind == "enter" && e.Token == tok2 {
					got[e.Server] = true
				}
			}
			var missing []int
			for s := range want {
				if !got[s] {
					missing = append(missing, s)
				}
			}
			sort.Ints(missing)
			return vt.Verdict{OK: false, Key: k("late-node-not-delivered"), History: cl.Log.Snapshot(),
				Msg: fmt.Sprintf("%s (no_send_wait=%v): after the unreachable server %d had come up, a second call did not reach server(s) %v within 2x%v: %s", kind, c.Call.NoSendWait, blockedSrv, missing, scen.B, sig)}
		} else if r == scen.Late {
			return vt.Verdict{OK: true, Inconclusive: true, Msg: "second call delivered late"}
		}
		classes = append(classes, "late-node-second-call")
	}
	return vt.Pass(nontrivial, classes...)
}

func TestProp(t *testing.T) {
	vt.Main(t, vt.Spec[Case]{
		ID:           "C06",
		Rule:         "rapid-generated cases: configuration of 1-7 nodes, a call kind among all that take a per-node function plus plain quorum/async/correctable calls, multicast and unicast; the per-node function as a table node -> skip | empty message (every field at its default, zero bytes on the wire - a message all the same) | tag | node-specific payload (skip none/some/all, distinct payloads per node); WithNoSendWaiting on/off; every handler blocked while the call is made; optionally an idle target whose dial blocks (and whose server then starts: a second one-way call of the same kind must reach it too); oracle: delivery multiset per server equals f(request, id) exactly once for targeted reachable nodes and nothing for skipped ones (after a fence RPC per node), one-way calls return while all handlers are blocked (and while the dial is blocked with no-send-waiting), two-way calls complete by the non-skipped nodes alone with Incomplete accounting over the non-skipped nodes; a second case shape (1 in 6): K one-way messages with contexts that never end are sent to nodes whose handlers block without Release, then 1-24 other calls of 6 kinds on the same nodes end by their context (already ended when the call is made; or, 1 in 8, large requests cancelled microseconds after being issued), then the handlers are released and a fence RPC per node completes - every message must have been delivered exactly once; non-trivial = a per-node function with a skip or two distinct per-node messages, or a one-way call behind blocked handlers, or any case of the second shape",
		Gen:          gen,
		Run:          run,
		TrackCurrent: true,
	})
}
