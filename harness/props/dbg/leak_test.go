package dbg

import (
	"context"
	"fmt"
	"testing"
	"time"

	"github.com/relab/gorums"

	"verif/scen"
)

// stress: QC calls cancelled right after issue; look for routing residue
func TestLeak(t *testing.T) {
	cl := scen.NewCluster(3, 0)
	defer cl.Shutdown()
	for i := 0; i < 3; i++ {
		cl.Start(i)
	}
	client, err := scen.NewClient(cl, scen.MgrOpts{})
	if err != nil {
		t.Fatal(err)
	}
	defer client.Close(5 * time.Second)
	idx := 0
	for round := 0; round < 3000; round++ {
		var calls []*scen.Call
		for k := 0; k < 4; k++ {
			tok := scen.NewTokens(1)
			kind := []string{"QC", "RPC", "Async", "QCPerNode"}[k]
			spec := scen.CallSpec{Kind: kind, Node: k % 3, Ctx: "cancel", Script: scen.QScript{Kind: "threshold", Q: 3}}
			c := client.NewCall(idx, tok, uint64(idx), spec)
			idx++
			calls = append(calls, c)
			go c.Issue()
			d := time.Duration(round%7) * 10 * time.Microsecond
			go func() { time.Sleep(d); c.Cancel() }()
		}
		for _, c := range calls {
			select {
			case <-c.DoneCh():
			case <-time.After(10 * time.Second):
				t.Fatalf("call hung")
			}
		}
		if round%50 == 49 {
			// fence
			for s := 0; s < 3; s++ {
				for a := 0; a < 5; a++ {
					ctx, cancel := context.WithTimeout(context.Background(), 5*time.Second)
					_, err := client.Node(s).RPC(ctx, nil)
					cancel()
					if err == nil {
						break
					}
					time.Sleep(5 * time.Millisecond)
				}
			}
			time.Sleep(20 * time.Millisecond)
			for s := 0; s < 3; s++ {
				if n := gorums.VerifRouterCount(client.Node(s).RawNode); n > 0 {
					time.Sleep(500 * time.Millisecond)
					ids, _ := gorums.VerifRouterIDs(client.Node(s).RawNode)
					if len(ids) > 0 {
						t.Fatalf("round %d: server %d has %d routers left: %v", round, s, len(ids), ids)
					}
				}
			}
		}
	}
	fmt.Println("no leak")
}
