//go:build !race

package scen

// RaceBuild reports whether the binary was built with the race detector.
const RaceBuild = false
