package gen

// Evaluation of service definitions: run the plugins on a definition, write
// the output of a whole batch as packages of one scratch Go module and compile
// it with a single `go build` (DESIGN.md 3.6 c, d).

import (
	"bytes"
	"context"
	"encoding/json"
	"fmt"
	"go/parser"
	"go/token"
	"os"
	"os/exec"
	"path"
	"path/filepath"
	"regexp"
	"sort"
	"strconv"
	"strings"
	"sync"
	"sync/atomic"
	"time"

	"google.golang.org/protobuf/proto"
	"google.golang.org/protobuf/reflect/protodesc"
	"google.golang.org/protobuf/types/descriptorpb"
)

// Tools locates the binaries and directories the evaluation needs.
type Tools struct {
	Gorums   string // the working tree's protoc-gen-gorums
	ProtocGo string // protoc-gen-go
	Work     string // scratch root (/verif/.work)
	Harness  string // the harness module (/verif/harness): go.mod/go.sum are copied from here
	Repo     string // /repo
}

func envOr(k, def string) string {
	if v := os.Getenv(k); v != "" {
		return v
	}
	return def
}

// DefaultTools reads VERIF_BIN (path of protoc-gen-gorums; protoc-gen-go is
// expected next to it), VERIF_WORK, VERIF_HARNESS and VERIF_REPO.
func DefaultTools() Tools {
	work := envOr("VERIF_WORK", "/verif/.work")
	bin := envOr("VERIF_BIN", filepath.Join(work, "bin", "protoc-gen-gorums"))
	return Tools{
		Gorums:   bin,
		ProtocGo: envOr("VERIF_BIN_GO", filepath.Join(filepath.Dir(bin), "protoc-gen-go")),
		Work:     work,
		Harness:  envOr("VERIF_HARNESS", "/verif/harness"),
		Repo:     envOr("VERIF_REPO", "/repo"),
	}
}

// Check reports whether the binaries exist.
func (tl Tools) Check() error {
	for _, b := range []string{tl.Gorums, tl.ProtocGo} {
		if st, err := os.Stat(b); err != nil || st.IsDir() {
			return fmt.Errorf("plugin binary %s not found (build it into %s first)", b, filepath.Dir(b))
		}
	}
	return nil
}

// ScratchModule is the import path prefix of generated packages.
const ScratchModule = "scratch"

// Descriptors builds the request files of a definition whose Go package is
// ScratchModule/<pkg> (the imported user file, if any, lives in <pkg>dep).
func (d Def) Descriptors(pkg string) []*descriptorpb.FileDescriptorProto {
	files := WellKnownDeps()
	if d.Dep != nil {
		dep := *d.Dep
		dep.GoPackage = ScratchModule + "/" + pkg + "dep"
		files = append(files, Build(dep))
	}
	main := d.File
	main.GoPackage = ScratchModule + "/" + pkg
	files = append(files, Build(main))
	return files
}

// Validate checks that the descriptors form a valid set of proto files
// (what protoc would have checked before calling a plugin).
func Validate(files []*descriptorpb.FileDescriptorProto) error {
	_, err := protodesc.NewFiles(&descriptorpb.FileDescriptorSet{File: files})
	return err
}

// Outcome is what was observed for one definition.
type Outcome struct {
	Def      Def      `json:"-"`
	Analysis Analysis `json:"analysis"`
	Pkg      string   `json:"pkg"`

	Invalid   string `json:"invalid,omitempty"` // harness-side: not a valid proto file / protoc-gen-go failed
	TimedOut  bool   `json:"timed_out,omitempty"`
	Crashed   bool   `json:"crashed,omitempty"`
	Garbled   bool   `json:"garbled,omitempty"`          // exit 0 but no response on stdout
	Silent    bool   `json:"silent_failure,omitempty"`   // failed without any message
	Both      bool   `json:"diag_and_files,omitempty"`   // diagnostic and files
	NonDet    string `json:"nondeterministic,omitempty"` // description of the difference between runs
	Accepted  bool   `json:"accepted"`
	Diagnosed bool   `json:"diagnosed"`
	Diag      string `json:"diag,omitempty"`

	Files   map[string]string `json:"-"` // gorums output of the first run: base name → content
	GoFiles map[string]string `json:"-"` // protoc-gen-go output: path below the module → content

	Compiled     bool   `json:"compiled,omitempty"` // the package was compiled
	CompileError string `json:"compile_error,omitempty"`
}

var panicRE = regexp.MustCompile(`(?m)^(panic: |fatal error: |goroutine \d+ \[running\])`)

func fileSet(r Result) map[string]string {
	m := map[string]string{}
	if r.Resp == nil {
		return m
	}
	for _, f := range r.Resp.File {
		m[path.Base(f.GetName())] = f.GetContent()
	}
	return m
}

func diffSets(a, b map[string]string) string {
	var names []string
	for n := range a {
		names = append(names, n)
	}
	for n := range b {
		if _, ok := a[n]; !ok {
			names = append(names, n)
		}
	}
	sort.Strings(names)
	for _, n := range names {
		x, okx := a[n]
		y, oky := b[n]
		switch {
		case !okx || !oky:
			return "file " + n + " is emitted by only one of the runs"
		case x != y:
			xl, yl := strings.Split(x, "\n"), strings.Split(y, "\n")
			for i := 0; i < len(xl) && i < len(yl); i++ {
				if xl[i] != yl[i] {
					return fmt.Sprintf("%s differs at line %d: %q vs %q", n, i+1, strings.TrimSpace(xl[i]), strings.TrimSpace(yl[i]))
				}
			}
			return n + " differs in length"
		}
	}
	return ""
}

func trim(s string, n int) string {
	s = strings.TrimSpace(s)
	if len(s) > n {
		return s[:n] + " …"
	}
	return s
}

// RunDef runs the gorums plugin `runs` times and protoc-gen-go once.
func RunDef(tl Tools, d Def, pkg string, runs int, timeout time.Duration) Outcome {
	o := Outcome{Def: d, Analysis: Analyze(d), Pkg: pkg}
	if o.Analysis.Invalid != "" {
		o.Invalid = o.Analysis.Invalid
		return o
	}
	files := d.Descriptors(pkg)
	if err := Validate(files); err != nil {
		o.Invalid = "descriptor set rejected by protodesc: " + err.Error()
		return o
	}
	// protoc-gen-go: message code of the user files
	toGen := []string{d.File.Name}
	if d.Dep != nil {
		toGen = []string{d.Dep.Name, d.File.Name}
	}
	gr, err := RunPlugin(tl.ProtocGo, Request("", files, toGen...), timeout, "")
	if err != nil || gr.TimedOut || gr.ExitCode != 0 || gr.Resp == nil || gr.Resp.Error != nil {
		o.Invalid = fmt.Sprintf("protoc-gen-go did not accept the definition: err=%v exit=%d %s %s", err, gr.ExitCode, trim(gr.Stderr, 300), gr.Resp.GetError())
		return o
	}
	o.GoFiles = map[string]string{}
	for _, f := range gr.Resp.File {
		o.GoFiles[strings.TrimPrefix(f.GetName(), ScratchModule+"/")] = f.GetContent()
	}

	var first map[string]string
	for i := 0; i < runs; i++ {
		r, err := RunPlugin(tl.Gorums, Request(d.Param, files, d.File.Name), timeout, "")
		if err == nil && r.TimedOut {
			// a run that normally takes 50 ms hit its time limit: on a busy machine that is no
			// evidence; it only counts if a second run with four times the limit does not end either
			r, err = RunPlugin(tl.Gorums, Request(d.Param, files, d.File.Name), 4*timeout, "")
		}
		if err != nil {
			o.Invalid = "cannot run the plugin: " + err.Error()
			return o
		}
		diag := strings.TrimSpace(r.Stderr)
		if r.Resp != nil && r.Resp.Error != nil {
			diag = strings.TrimSpace(diag + "\n" + r.Resp.GetError())
		}
		set := fileSet(r)
		switch {
		case r.TimedOut:
			o.TimedOut = true
		case panicRE.MatchString(r.Stderr):
			o.Crashed = true
			o.Diag = trim(r.Stderr, 1500)
		case r.ExitCode == 0 && r.Resp == nil:
			o.Garbled = true
		case r.Diagnosed() && diag == "":
			o.Silent = true
		case r.Diagnosed() && len(set) > 0:
			o.Both = true
		}
		if o.TimedOut || o.Crashed || o.Garbled || o.Silent || o.Both {
			return o
		}
		if i == 0 {
			o.Accepted, o.Diagnosed, o.Diag = !r.Diagnosed(), r.Diagnosed(), trim(diag, 600)
			first = set
			o.Files = set
			continue
		}
		if r.Diagnosed() != o.Diagnosed {
			o.NonDet = fmt.Sprintf("run 1 %s, run %d %s", map[bool]string{true: "was refused", false: "was accepted"}[o.Diagnosed], i+1,
				map[bool]string{true: "was refused", false: "was accepted"}[r.Diagnosed()])
			return o
		}
		if df := diffSets(first, set); df != "" {
			o.NonDet = fmt.Sprintf("run 1 vs run %d: %s", i+1, df)
			return o
		}
	}
	return o
}

// ---------------------------------------------------------------- scratch module

var scratchSeq atomic.Int64

// Scratch is a throw-away Go module below <Work>/gen.
type Scratch struct {
	Dir string
	tl  Tools
}

// NewScratch creates the module directory with go.mod and go.sum.
func NewScratch(tl Tools) (*Scratch, error) {
	dir := filepath.Join(tl.Work, "gen", fmt.Sprintf("%d-%d", os.Getpid(), scratchSeq.Add(1)))
	_ = os.RemoveAll(dir)
	if err := os.MkdirAll(dir, 0o755); err != nil {
		return nil, err
	}
	s := &Scratch{Dir: dir, tl: tl}
	gomod, err := os.ReadFile(filepath.Join(tl.Harness, "go.mod"))
	if err != nil {
		s.Close()
		return nil, err
	}
	var b strings.Builder
	b.WriteString("module " + ScratchModule + "\n\ngo 1.23\n\nrequire (\n\tgithub.com/relab/gorums v0.0.0\n")
	// same versions as the harness module
	re := regexp.MustCompile(`(?m)^\s*(google\.golang\.org/(?:grpc|protobuf|genproto/googleapis/rpc)|golang\.org/x/\S+|github\.com/golang/protobuf)\s+(v\S+)`)
	for _, m := range re.FindAllStringSubmatch(string(gomod), -1) {
		b.WriteString("\t" + m[1] + " " + m[2] + "\n")
	}
	b.WriteString(")\n\nreplace github.com/relab/gorums => " + tl.Repo + "\n")
	if err := os.WriteFile(filepath.Join(dir, "go.mod"), []byte(b.String()), 0o644); err != nil {
		s.Close()
		return nil, err
	}
	gosum, err := os.ReadFile(filepath.Join(tl.Harness, "go.sum"))
	if err == nil {
		err = os.WriteFile(filepath.Join(dir, "go.sum"), gosum, 0o644)
	}
	if err != nil {
		s.Close()
		return nil, err
	}
	return s, nil
}

// Write writes a file below the module root.
func (s *Scratch) Write(rel, content string) error {
	p := filepath.Join(s.Dir, filepath.FromSlash(rel))
	if err := os.MkdirAll(filepath.Dir(p), 0o755); err != nil {
		return err
	}
	return os.WriteFile(p, []byte(content), 0o644)
}

// Close deletes the module.
func (s *Scratch) Close() { _ = os.RemoveAll(s.Dir) }

// Go runs the go tool in the module directory.
func (s *Scratch) Go(timeout time.Duration, args ...string) (string, int, error) {
	ctx, cancel := context.WithTimeout(context.Background(), timeout)
	defer cancel()
	cmd := exec.CommandContext(ctx, "go", args...)
	cmd.Dir = s.Dir
	env := os.Environ()
	// no cgo: generated code needs none, and the directly linked drivers of
	// C17 then link internally without a C toolchain
	env = append(env, "GOFLAGS=-mod=mod", "GOPROXY=off", "GOSUMDB=off", "GOTOOLCHAIN=local", "GOWORK=off", "CGO_ENABLED=0")
	cmd.Env = env
	var out bytes.Buffer
	cmd.Stdout, cmd.Stderr = &out, &out
	err := cmd.Run()
	if ctx.Err() != nil {
		return out.String(), -1, fmt.Errorf("go %s: timed out after %v", strings.Join(args, " "), timeout)
	}
	if err != nil {
		if ee, ok := err.(*exec.ExitError); ok {
			return out.String(), ee.ExitCode(), nil
		}
		return out.String(), -1, err
	}
	return out.String(), 0, nil
}

// SplitBuildOutput attributes compiler output to packages by the `# pkg`
// header lines; rest is whatever precedes the first header.
func SplitBuildOutput(out string) (map[string]string, string) {
	by := map[string]string{}
	var rest strings.Builder
	cur := ""
	for _, line := range strings.Split(out, "\n") {
		if strings.HasPrefix(line, "# ") {
			cur = strings.Fields(line[2:])[0]
			continue
		}
		if strings.TrimSpace(line) == "" {
			continue
		}
		if cur == "" {
			rest.WriteString(line + "\n")
		} else {
			by[cur] += line + "\n"
		}
	}
	return by, rest.String()
}

// devStatic returns the static sources that accompany dev=true output
// (cmd/protoc-gen-gorums/dev/*.go except zorums* and tests), re-packaged.
func devStatic(tl Tools, pkg string) (map[string]string, error) {
	dir := filepath.Join(tl.Repo, "cmd", "protoc-gen-gorums", "dev")
	ents, err := os.ReadDir(dir)
	if err != nil {
		return nil, err
	}
	out := map[string]string{}
	re := regexp.MustCompile(`(?m)^package dev\s*$`)
	for _, e := range ents {
		n := e.Name()
		if !strings.HasSuffix(n, ".go") || strings.HasSuffix(n, "_test.go") || strings.HasPrefix(n, "zorums") {
			continue
		}
		b, err := os.ReadFile(filepath.Join(dir, n))
		if err != nil {
			return nil, err
		}
		out["static_"+n] = re.ReplaceAllString(string(b), "package "+pkg)
	}
	return out, nil
}

// WritePackage writes the generated code of an accepted definition into the
// scratch module and returns what it wrote (path below the module → content).
func (s *Scratch) WritePackage(o *Outcome) (map[string]string, error) {
	all := map[string]string{}
	for rel, c := range o.GoFiles {
		all[rel] = c
	}
	for name, c := range o.Files {
		all[o.Pkg+"/"+name] = c
	}
	if strings.Contains(o.Def.Param, "dev=true") && len(o.Files) > 0 {
		st, err := devStatic(s.tl, o.Pkg)
		if err != nil {
			return nil, err
		}
		for name, c := range st {
			all[o.Pkg+"/"+name] = c
		}
	}
	for rel, c := range all {
		if err := s.Write(rel, c); err != nil {
			return nil, err
		}
	}
	return all, nil
}

// PkgSpec names one package of the scratch module to compile.
type PkgSpec struct {
	Path  string   // import path, e.g. scratch/p3
	Dir   string   // directory below the module root
	Files []string // Go files (base names)
	// Main marks a main package: it is linked into <module>/bin/<Dir> as well.
	Main bool
}

// LinkFailed prefixes the error text of a main package that compiled but did not link.
const LinkFailed = "link failed: "

// DepFailed prefixes the error text of a package whose scratch-internal
// dependency did not compile.
const DepFailed = "dependency does not compile: "

// Compile compiles the packages and returns the compiler's error text per
// import path ("" or absent = compiled).
//
// Default mode "direct": every package is compiled by `go tool compile` with
// an importcfg taken from `go list -export -deps` of the packages it imports
// (the runtime of /repo, grpc, protobuf, std: built once and cached by the go
// tool as usual). This is the compile step `go build` would run, but the
// objects of the thousands of throw-away packages do not end up in GOCACHE
// (measured: about 1.7 MB per generated package, 9 GB after 5 000 definitions).
// VERIF_GEN_COMPILER=gobuild uses one `go build` for the whole batch instead
// (errors attributed by the `# pkg` header lines).
func (s *Scratch) Compile(pkgs []PkgSpec) (map[string]string, error) {
	if os.Getenv("VERIF_GEN_COMPILER") == "gobuild" {
		return s.compileGoBuild(pkgs)
	}
	return s.compileDirect(pkgs)
}

func (s *Scratch) compileGoBuild(pkgs []PkgSpec) (map[string]string, error) {
	args := []string{"build"}
	want := map[string]bool{}
	for _, p := range pkgs {
		if p.Main {
			if err := os.MkdirAll(filepath.Join(s.Dir, "bin"), 0o755); err != nil {
				return nil, err
			}
			args = []string{"build", "-o", "bin/"}
		}
	}
	for _, p := range pkgs {
		args = append(args, "./"+p.Dir)
		want[p.Path] = true
	}
	out, code, err := s.Go(15*time.Minute, args...)
	if err != nil {
		return nil, fmt.Errorf("go build: %v\n%s", err, trim(out, 2000))
	}
	res := map[string]string{}
	if code == 0 {
		return res, nil
	}
	by, _ := SplitBuildOutput(out)
	if len(by) == 0 {
		return nil, fmt.Errorf("go build failed without attributing errors to a package:\n%s", trim(out, 2000))
	}
	for p, e := range by {
		if !want[p] {
			return nil, fmt.Errorf("go build reported errors for an unexpected package %s:\n%s", p, trim(out, 2000))
		}
		res[p] = e
	}
	// go build does not attempt dependents of a failed package
	for _, p := range pkgs {
		if _, ok := res[p.Path]; ok {
			continue
		}
		for _, q := range pkgs {
			if q.Path != p.Path && strings.HasPrefix(q.Path, p.Path) && res[q.Path] != "" && p.Path+"dep" == q.Path {
				res[p.Path] = DepFailed + q.Path
			}
		}
	}
	return res, nil
}

var (
	importCfgMu    sync.Mutex
	importCfgCache = map[string]string{}
)

// importCfg returns importcfg lines for the external packages (and all their
// dependencies).
func (s *Scratch) importCfg(ext []string) (string, error) {
	key := strings.Join(ext, " ")
	importCfgMu.Lock()
	defer importCfgMu.Unlock()
	if c, ok := importCfgCache[key]; ok {
		return c, nil
	}
	args := append([]string{"list", "-e", "-export", "-deps", "-f", "{{if .Export}}packagefile {{.ImportPath}}={{.Export}}{{end}}"}, ext...)
	out, code, err := s.Go(15*time.Minute, args...)
	if err != nil {
		return "", fmt.Errorf("go list -export: %v\n%s", err, trim(out, 2000))
	}
	var b strings.Builder
	n := 0
	for _, l := range strings.Split(out, "\n") {
		if strings.HasPrefix(l, "packagefile ") {
			b.WriteString(l + "\n")
			n++
		}
	}
	if n == 0 {
		return "", fmt.Errorf("go list -export produced no export data (exit %d):\n%s", code, trim(out, 2000))
	}
	// every requested package that exists must have export data, else the
	// runtime itself does not build: harness/infrastructure trouble
	for _, e := range []string{"github.com/relab/gorums"} {
		if !strings.Contains(b.String(), "packagefile "+e+"=") {
			for _, x := range ext {
				if x == e {
					return "", fmt.Errorf("go list -export: no export data for %s (does /repo build?):\n%s", e, trim(out, 2000))
				}
			}
		}
	}
	importCfgCache[key] = b.String()
	return b.String(), nil
}

func (s *Scratch) compileDirect(pkgs []PkgSpec) (map[string]string, error) {
	fset := token.NewFileSet()
	inBatch := map[string]bool{}
	for _, p := range pkgs {
		inBatch[p.Path] = true
	}
	internal := map[string][]string{}
	extSet := map[string]bool{}
	for _, p := range pkgs {
		for _, f := range p.Files {
			af, err := parser.ParseFile(fset, filepath.Join(s.Dir, p.Dir, f), nil, parser.ImportsOnly)
			if err != nil || af == nil {
				continue // the compiler will report the syntax error
			}
			for _, im := range af.Imports {
				ip, err := strconv.Unquote(im.Path.Value)
				if err != nil {
					continue
				}
				if ip == ScratchModule || strings.HasPrefix(ip, ScratchModule+"/") {
					internal[p.Path] = append(internal[p.Path], ip)
				} else {
					extSet[ip] = true
				}
			}
		}
	}
	var ext []string
	for e := range extSet {
		if e != "C" && e != "unsafe" {
			ext = append(ext, e)
		}
	}
	sort.Strings(ext)
	base := ""
	if len(ext) > 0 {
		var err error
		if base, err = s.importCfg(ext); err != nil {
			return nil, err
		}
	}
	res := map[string]string{}
	archive := map[string]string{}
	done := map[string]bool{}
	var mains []PkgSpec
	var mu sync.Mutex
	remaining := append([]PkgSpec(nil), pkgs...)
	for len(remaining) > 0 {
		var ready, later []PkgSpec
		for _, p := range remaining {
			ok := true
			for _, d := range internal[p.Path] {
				if inBatch[d] && !done[d] {
					ok = false
				}
			}
			if ok {
				ready = append(ready, p)
			} else {
				later = append(later, p)
			}
		}
		if len(ready) == 0 {
			return nil, fmt.Errorf("import cycle among generated packages")
		}
		var wg sync.WaitGroup
		sem := make(chan struct{}, 8)
		var firstErr error
		for _, p := range ready {
			p := p
			cfg := base
			failedDep := ""
			for _, d := range internal[p.Path] {
				if a, ok := archive[d]; ok {
					cfg += "packagefile " + d + "=" + a + "\n"
				} else if inBatch[d] {
					failedDep = d
				}
			}
			if failedDep != "" {
				res[p.Path] = DepFailed + failedDep
				continue
			}
			wg.Add(1)
			go func() {
				defer wg.Done()
				sem <- struct{}{}
				defer func() { <-sem }()
				tag := strings.ReplaceAll(strings.TrimPrefix(p.Path, ScratchModule+"/"), "/", "_")
				cfgFile := filepath.Join(s.Dir, "importcfg."+tag)
				out := filepath.Join(s.Dir, tag+".a")
				if err := os.WriteFile(cfgFile, []byte(cfg), 0o644); err != nil {
					mu.Lock()
					firstErr = err
					mu.Unlock()
					return
				}
				pkgPath := p.Path
				if p.Main {
					pkgPath = "main"
				}
				args := []string{"tool", "compile", "-p", pkgPath, "-lang=go1.23", "-complete", "-c=2", "-importcfg", cfgFile, "-pack", "-o", out}
				for _, f := range p.Files {
					args = append(args, filepath.Join(p.Dir, f))
				}
				txt, code, err := s.Go(10*time.Minute, args...)
				mu.Lock()
				defer mu.Unlock()
				switch {
				case err != nil:
					firstErr = fmt.Errorf("go tool compile %s: %v\n%s", p.Path, err, trim(txt, 1000))
				case code != 0:
					if strings.TrimSpace(txt) == "" {
						txt = fmt.Sprintf("go tool compile exited with status %d", code)
					}
					res[p.Path] = txt
				default:
					archive[p.Path] = out
				}
				if p.Main && code == 0 && err == nil {
					mains = append(mains, p)
				}
			}()
		}
		wg.Wait()
		if firstErr != nil {
			return nil, firstErr
		}
		for _, p := range ready {
			done[p.Path] = true
		}
		remaining = later
	}
	if len(mains) > 0 {
		// link: the importcfg names every package of the closure
		if err := os.MkdirAll(filepath.Join(s.Dir, "bin"), 0o755); err != nil {
			return nil, err
		}
		cfg := base
		for p, a := range archive {
			cfg += "packagefile " + p + "=" + a + "\n"
		}
		cfgFile := filepath.Join(s.Dir, "importcfg.link")
		if err := os.WriteFile(cfgFile, []byte(cfg), 0o644); err != nil {
			return nil, err
		}
		var wg sync.WaitGroup
		sem := make(chan struct{}, 8)
		var firstErr error
		for _, p := range mains {
			p := p
			wg.Add(1)
			go func() {
				defer wg.Done()
				sem <- struct{}{}
				defer func() { <-sem }()
				txt, code, err := s.Go(10*time.Minute, "tool", "link", "-importcfg", cfgFile, "-buildmode=exe", "-s", "-w", "-o", filepath.Join("bin", p.Dir), archive[p.Path])
				mu.Lock()
				defer mu.Unlock()
				if err != nil {
					firstErr = fmt.Errorf("go tool link %s: %v\n%s", p.Path, err, trim(txt, 1000))
				} else if code != 0 {
					res[p.Path] = LinkFailed + txt
				}
			}()
		}
		wg.Wait()
		if firstErr != nil {
			return nil, firstErr
		}
	}
	return res, nil
}

func goFilesOf(m map[string]string, dir string) []string {
	var fs []string
	for rel := range m {
		if path.Dir(rel) == dir && strings.HasSuffix(rel, ".go") && !strings.HasSuffix(rel, "_test.go") {
			fs = append(fs, path.Base(rel))
		}
	}
	sort.Strings(fs)
	return fs
}

// EvalBatch runs the plugins on every definition (definition i becomes
// package p<i>) and compiles all accepted output of the batch together.
// The returned error reports harness-side trouble (never a property violation).
func EvalBatch(tl Tools, defs []Def, runs int) ([]Outcome, error) {
	if err := tl.Check(); err != nil {
		return nil, err
	}
	outs := make([]Outcome, len(defs))
	var wg sync.WaitGroup
	sem := make(chan struct{}, 6)
	for i := range defs {
		wg.Add(1)
		go func(i int) {
			defer wg.Done()
			sem <- struct{}{}
			defer func() { <-sem }()
			outs[i] = RunDef(tl, defs[i], fmt.Sprintf("p%d", i), runs, 60*time.Second)
		}(i)
	}
	wg.Wait()

	var compile []int
	for i := range outs {
		o := &outs[i]
		if o.Invalid == "" && o.Accepted && len(o.Files) > 0 {
			compile = append(compile, i)
		}
	}
	if len(compile) == 0 {
		return outs, nil
	}
	s, err := NewScratch(tl)
	if err != nil {
		return nil, err
	}
	defer s.Close()
	var pkgs []PkgSpec
	for _, i := range compile {
		o := &outs[i]
		written, err := s.WritePackage(o)
		if err != nil {
			return nil, err
		}
		pkgs = append(pkgs, PkgSpec{Path: ScratchModule + "/" + o.Pkg, Dir: o.Pkg, Files: goFilesOf(written, o.Pkg)})
		if o.Def.Dep != nil {
			pkgs = append(pkgs, PkgSpec{Path: ScratchModule + "/" + o.Pkg + "dep", Dir: o.Pkg + "dep", Files: goFilesOf(written, o.Pkg+"dep")})
		}
	}
	errs, err := s.Compile(pkgs)
	if err != nil {
		return nil, err
	}
	var failing []int
	var ctl []PkgSpec
	for _, i := range compile {
		o := &outs[i]
		o.Compiled = true
		if e := errs[ScratchModule+"/"+o.Pkg+"dep"]; e != "" {
			o.Invalid = "the imported package's message code does not compile: " + trim(e, 400)
			continue
		}
		e := errs[ScratchModule+"/"+o.Pkg]
		if e == "" {
			continue
		}
		if strings.HasPrefix(e, DepFailed) {
			o.Invalid = e
			continue
		}
		o.CompileError = trim(e, 1500)
		failing = append(failing, i)
		// control: does protoc-gen-go's code compile on its own? If not, the
		// definition is outside what the harness can judge (not the plugin's fault).
		spec := PkgSpec{Path: ScratchModule + "/ctl" + o.Pkg, Dir: "ctl" + o.Pkg}
		for rel, c := range o.GoFiles {
			if path.Dir(rel) == o.Pkg {
				if err := s.Write("ctl"+o.Pkg+"/"+path.Base(rel), c); err != nil {
					return nil, err
				}
				spec.Files = append(spec.Files, path.Base(rel))
			}
		}
		sort.Strings(spec.Files)
		ctl = append(ctl, spec)
		if o.Def.Dep != nil {
			// the control imports the same dep package; compile it again in this round
			ctl = append(ctl, PkgSpec{Path: ScratchModule + "/" + o.Pkg + "dep", Dir: o.Pkg + "dep", Files: goFilesOf(o.GoFiles, o.Pkg+"dep")})
		}
	}
	if len(failing) > 0 {
		errs2, err := s.Compile(ctl)
		if err != nil {
			return nil, err
		}
		for _, i := range failing {
			o := &outs[i]
			if e := errs2[ScratchModule+"/ctl"+o.Pkg]; e != "" {
				o.Invalid = "protoc-gen-go's message code does not compile on its own: " + trim(e, 400)
				o.CompileError = ""
			}
		}
	}
	return outs, nil
}

// Problem is the judgement of one outcome against the property: Kind is empty
// if the definition satisfies C16. Msg is a deterministic function of the
// definition as long as the plugin is deterministic (rapid's shrinker requires
// a reproducible failure message); observations that may vary from run to run
// go to Detail.
type Problem struct {
	Kind   string // timeout | crash | garbled-output | silent-failure | diagnostic-and-files | illegal-accepted | nondeterministic | legal-rejected | noncompiling
	Msg    string
	Detail string
}

var hexRE = regexp.MustCompile(`0x[0-9a-f]+`)

// Judge applies the oracle of C16 to an outcome. Invalid outcomes must be
// filtered out by the caller (they are inconclusive).
func Judge(o Outcome) Problem {
	a := o.Analysis
	switch {
	case o.TimedOut:
		return Problem{Kind: "timeout", Msg: "the plugin did not terminate within 60 s, nor within 240 s when run again"}
	case o.Crashed:
		line := ""
		for _, l := range strings.Split(o.Diag, "\n") {
			if strings.HasPrefix(l, "panic: ") || strings.HasPrefix(l, "fatal error: ") {
				line = hexRE.ReplaceAllString(l, "0x?")
				break
			}
		}
		return Problem{Kind: "crash", Msg: "the plugin crashed with a Go panic trace instead of printing a diagnostic: " + trim(line, 200), Detail: o.Diag}
	case o.Garbled:
		return Problem{Kind: "garbled-output", Msg: "the plugin exited with status 0 but wrote no CodeGeneratorResponse"}
	case o.Silent:
		return Problem{Kind: "silent-failure", Msg: "the plugin failed without any diagnostic message"}
	case o.Both:
		return Problem{Kind: "diagnostic-and-files", Msg: "the plugin reported an error and emitted files", Detail: o.Diag}
	case a.Label == "illegal" && o.Accepted:
		var rules []string
		for _, f := range a.Features {
			if f.Illegal {
				rules = append(rules, f.Key)
			}
		}
		p := Problem{Kind: "illegal-accepted", Msg: fmt.Sprintf("documented-illegal definition (%s) was accepted without a diagnostic", strings.Join(rules, ", "))}
		if o.CompileError != "" {
			p.Detail = "the emitted code does not compile: " + firstLines(o.CompileError, 6)
		}
		if o.NonDet != "" {
			p.Detail += " output differs between runs: " + o.NonDet
		}
		return p
	case o.NonDet != "":
		return Problem{Kind: "nondeterministic", Msg: "the output differs between runs of the plugin on the same request", Detail: o.NonDet}
	case a.Label == "legal" && o.Diagnosed:
		return Problem{Kind: "legal-rejected", Msg: "documented-legal definition was refused: " + firstLines(o.Diag, 2)}
	case a.Label == "legal" && o.Accepted && a.Methods > 0 && len(o.Files) == 0:
		return Problem{Kind: "legal-rejected", Msg: "documented-legal definition with methods produced no output file"}
	case o.CompileError != "":
		return Problem{Kind: "noncompiling", Msg: "the plugin accepted the definition but its output does not compile: " + firstLines(o.CompileError, 6)}
	}
	return Problem{}
}

func firstLines(s string, n int) string {
	ls := strings.Split(strings.TrimSpace(s), "\n")
	if len(ls) > n {
		ls = append(ls[:n], "…")
	}
	return strings.Join(ls, " | ")
}

// Candidate is a variant of a failing definition that isolates one possible
// root cause.
type Candidate struct {
	Key string
	Def Def
}

// Candidates lists the single-cause variants of a failing definition: one per
// suspicious feature (everything else legalised), or, for a definition without
// suspicious features, one per distinct method row (only that method kept).
func Candidates(d Def) []Candidate {
	a := Analyze(d)
	var cs []Candidate
	base := d
	if keys := a.FeatureKeys(); len(keys) > 0 {
		for _, k := range keys {
			cs = append(cs, Candidate{Key: k, Def: Neutralise(d, k)})
		}
		// the fully legalised definition: if it fails too, no listed feature
		// is the cause and the rows decide
		base = Neutralise(d, "")
		cs = append(cs, Candidate{Key: BaselineKey, Def: base})
	}
	seen := map[string]bool{}
	for si, s := range base.File.Services {
		for mi, m := range s.Methods {
			k := RowKey(&base, m)
			if seen[k] {
				continue
			}
			seen[k] = true
			cs = append(cs, Candidate{Key: "row:" + k, Def: OnlyMethod(base, si, mi)})
		}
	}
	return cs
}

// BaselineKey marks the fully legalised variant among the candidates.
const BaselineKey = "(baseline)"

// DefJSON renders a definition compactly (for messages).
func DefJSON(d Def) string {
	b, _ := json.Marshal(d)
	return string(b)
}

// keep proto imported (Request marshals through it in gen.go)
var _ = proto.Marshal

// usesType reports whether a method of the definition refers to the type.
func usesType(d *Def, ref string) bool {
	for _, s := range d.File.Services {
		for _, m := range s.Methods {
			if m.In == ref || m.Out == ref {
				return true
			}
			if m.CustomReturn != "" && !strings.HasPrefix(ref, ".") && m.CustomReturn == GoCamelCase(ref) && (!strings.HasPrefix(m.Out, ".") || m.Out == EmptyType) {
				return true
			}
		}
	}
	return false
}

// prune drops what no method refers to: messages (except those that carry a
// feature with the given key), the imported user file, the Empty import.
func prune(d Def, featureKey string) Def {
	v := cloneDef(d)
	a := Analyze(v)
	keepMsg := map[int]bool{}
	for _, ft := range a.Features {
		if ft.Key == featureKey && ft.msg >= 0 {
			keepMsg[ft.msg] = true
		}
	}
	var msgs []Message
	for i, m := range v.File.Messages {
		if keepMsg[i] || usesType(&v, m.Name) {
			msgs = append(msgs, m)
		}
	}
	if len(msgs) == 0 && len(v.File.Messages) > 0 {
		msgs = v.File.Messages[:1]
	}
	v.File.Messages = msgs
	usedDep, usedEmpty := false, false
	for _, s := range v.File.Services {
		for _, m := range s.Methods {
			for _, r := range []string{m.In, m.Out} {
				if r == EmptyType {
					usedEmpty = true
				} else if strings.HasPrefix(r, ".") {
					usedDep = true
				}
			}
		}
	}
	var imports []string
	for _, im := range v.File.Imports {
		if (im == EmptyImport && usedEmpty) || (v.Dep != nil && im == v.Dep.Name && usedDep) {
			imports = append(imports, im)
		}
	}
	v.File.Imports = imports
	if !usedDep {
		v.Dep = nil
	} else if v.Dep != nil {
		var dm []Message
		for _, m := range v.Dep.Messages {
			if usesType(&v, "."+v.Dep.Package+"."+m.Name) {
				dm = append(dm, m)
			}
		}
		// a custom return type may name a dep message by its Go name
		if len(dm) != len(v.Dep.Messages) {
			for _, s := range v.File.Services {
				for _, me := range s.Methods {
					if me.CustomReturn != "" {
						dm = v.Dep.Messages
					}
				}
			}
		}
		v.Dep.Messages = dm
	}
	return v
}

// Minimise reduces a failing definition while it keeps failing with the same
// kind of problem and keeps the feature (or row) the failure was attributed
// to: first to a single method, then to the messages that method needs. Two
// extra batch evaluations; the result is for reporting only.
func Minimise(tl Tools, d Def, kind, featureKey string, runs int) Def {
	still := func(v Def) bool {
		a := Analyze(v)
		if a.Invalid != "" {
			return false
		}
		if len(Analyze(d).Features) == 0 {
			return true
		}
		for _, k := range a.FeatureKeys() {
			if k == featureKey {
				return true
			}
		}
		return false
	}
	best := d
	var cands []Def
	for si, s := range d.File.Services {
		for mi := range s.Methods {
			if v := OnlyMethod(d, si, mi); still(v) {
				cands = append(cands, prune(v, featureKey), v)
			}
		}
	}
	if p := prune(d, featureKey); still(p) {
		cands = append(cands, p)
	}
	if len(cands) == 0 {
		return best
	}
	outs, err := EvalBatch(tl, cands, runs)
	if err != nil {
		return best
	}
	size := func(v Def) int { return len(DefJSON(v)) }
	for i, o := range outs {
		if o.Invalid == "" && Judge(o).Kind == kind && size(cands[i]) < size(best) {
			best = cands[i]
		}
	}
	return best
}
