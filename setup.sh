#!/bin/sh
# MANIFEST.setup_cmd: build the framework from files on disk only (offline).
set -e
cd "$(dirname "$0")"
export GOFLAGS=-mod=mod GOPROXY=off GOSUMDB=off GOTOOLCHAIN=local
mkdir -p .work evidence
cd harness
cat /repo/go.sum go.sum 2>/dev/null | sort -u > go.sum.new && mv go.sum.new go.sum
# warm the build cache: helper packages and every property package's test binary dependencies
go build ./vt/... 2>&1 | tail -5
go vet ./vt/ >/dev/null 2>&1 || true
echo setup ok
