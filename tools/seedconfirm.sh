#!/bin/bash
# usage: seedconfirm.sh <ID> [checks...]  — confirm a seeded change in /tmp/wt-<ID> and run checks against it
# 1. demo fails with the change, passes without; 2. suite passes with the change; 3. copy to /verif/seeded/<ID>; 4. run checks on /repo + patch
ID=$1; shift
WT=${WT:-/tmp/wt-$ID}; NAME=${NAME:-$ID}
export GOFLAGS=-mod=mod GOPROXY=off GOSUMDB=off GOTOOLCHAIN=local
set -u
cd $WT || exit 9
DEMO_CMD=$(python3 -c "import json;print(json.load(open('SEEDED/meta.json'))['demo_cmd'])")
echo "== demo cmd: $DEMO_CMD"
FILES=$(grep '^+++ b/' SEEDED/patch.diff | sed 's#+++ b/##')
echo "== files: $FILES"
# git stash is shared between worktrees (agents collided on it): work from SEEDED/patch.diff only
git checkout -q -- . && git apply SEEDED/patch.diff || { echo "patch.diff does not apply to a clean checkout of the worktree"; exit 6; }
echo "== demo WITH change (expect FAIL)"
( eval "$DEMO_CMD" ) > /tmp/seed-$NAME-with.log 2>&1; RC_WITH=$?
tail -3 /tmp/seed-$NAME-with.log | cut -c1-200
echo "rc=$RC_WITH"
git apply -R SEEDED/patch.diff
echo "== demo WITHOUT change (expect PASS)"
( eval "$DEMO_CMD" ) > /tmp/seed-$NAME-without.log 2>&1; RC_WITHOUT=$?
tail -3 /tmp/seed-$NAME-without.log | cut -c1-200
echo "rc=$RC_WITHOUT"
git apply SEEDED/patch.diff
echo "== suite WITH change"
go build ./... && go test -vet=off -count=1 -timeout 25m -skip "${SKIP:-Seeded|seeded}" . ./internal/leakcheck ./tests/... 2>&1 | grep -v "no test files" > /tmp/seed-$NAME-suite.log; 
grep -c '^ok' /tmp/seed-$NAME-suite.log; grep -v '^ok' /tmp/seed-$NAME-suite.log | head -5
mkdir -p /verif/seeded/$NAME
cp SEEDED/patch.diff /verif/seeded/$NAME/
for f in SEEDED/*; do case "$f" in *patch.diff|*meta.json) ;; *) cp -r "$f" /verif/seeded/$NAME/ ;; esac; done
cp SEEDED/meta.json /verif/seeded/$NAME/meta.agent.json
echo "RC_WITH=$RC_WITH RC_WITHOUT=$RC_WITHOUT" > /tmp/seed-$NAME-rc.txt
# 4. checks: by default against /repo + patch (as the brief describes); with ALT=1 a copy of
# /verif is run against the worktree itself (tools/altcheck.sh), which leaves /repo alone so that
# soaks on /repo and several confirmations can run at the same time
cd /verif
if [ -n "${ALT:-}" ]; then
  for c in "$@"; do
    ALT_REFRESH=1 /verif/tools/altcheck.sh $WT $c quick > /tmp/seed-$NAME-check-$c.log 2>&1; echo "== check $c rc=$? :: $(grep -E 'violation key|INCONCLUSIVE|inconclusive' /tmp/seed-$NAME-check-$c.log | head -2 | cut -c1-300)"; grep "^$c " /tmp/seed-$NAME-check-$c.log | cut -c1-160
  done
  exit 0
fi
git -C /repo diff --quiet || { echo "/repo not clean"; exit 8; }
git -C /repo apply $WT/SEEDED/patch.diff || { echo "patch does not apply to /repo"; exit 7; }
for c in "$@"; do
  /verif/check $c quick > /tmp/seed-$NAME-check-$c.log 2>&1; echo "== check $c rc=$? :: $(grep -E 'violation key|INCONCLUSIVE|inconclusive' /tmp/seed-$NAME-check-$c.log | head -2 | cut -c1-300)"; grep "^$c " /tmp/seed-$NAME-check-$c.log | cut -c1-160
done
git -C /repo checkout -- . ; git -C /repo status --short
