// Native (coverage-guided) fuzz target for the decoder half of C13: decoding
// arbitrary bytes returns an error or a message but never panics. Used by the
// thorough tier only (native fuzzing cannot be seeded).
package c13fuzz

import (
	"testing"

	"github.com/relab/gorums"
	"github.com/relab/gorums/ordering"
	"google.golang.org/protobuf/encoding/protowire"

	_ "github.com/relab/gorums/tests/config"
	_ "github.com/relab/gorums/tests/oneway"
	_ "github.com/relab/gorums/tests/ordering"

	"verif/puppet"
)

func frame(md, msg []byte) []byte {
	var b []byte
	b = protowire.AppendBytes(b, md)
	b = protowire.AppendBytes(b, msg)
	return b
}

func rawMD(id uint64, method string) []byte {
	var b []byte
	b = protowire.AppendTag(b, 1, protowire.VarintType)
	b = protowire.AppendVarint(b, id)
	b = protowire.AppendTag(b, 2, protowire.BytesType)
	b = protowire.AppendBytes(b, []byte(method))
	return b
}

func FuzzUnmarshal(f *testing.F) {
	codec := gorums.NewCodec()
	valid, _ := codec.Marshal(&gorums.Message{Metadata: &ordering.Metadata{MessageID: 7, Method: "puppet.Puppet.QC"}, Message: &puppet.Req{Token: 1, Note: "x", Payload: []byte{1, 2, 3}}})
	f.Add(valid, false)
	f.Add(valid, true)
	for _, m := range []string{"puppet.Puppet.RPC", "puppet.Puppet", "puppet.Req", "puppet.Rich.Kind", "puppet.Rich.KIND_ONE", "puppet.Req.token", "ordering.Metadata", "ordering.Gorums.NodeStream", "puppet.proto", "", "gorums.rpc", "google.protobuf.MethodOptions"} {
		f.Add(frame(rawMD(1, m), []byte{0x08, 0x01}), false)
		f.Add(frame(rawMD(1, m), nil), true)
	}
	f.Add([]byte{0xff, 0xff, 0xff, 0xff, 0xff, 0xff, 0xff, 0xff, 0xff, 0x01}, false)
	f.Add([]byte{0x80}, true)
	f.Add([]byte{}, false)
	f.Fuzz(func(t *testing.T, data []byte, response bool) {
		defer func() {
			if r := recover(); r != nil {
				t.Fatalf("PANIC frame=%x response=%v panic=%v", data, response, r)
			}
		}()
		msg := gorums.VerifNewMessage(response)
		_ = codec.Unmarshal(data, msg)
	})
}
