#!/usr/bin/env python3
"""tools/seedmeta.py <NAME> <WT> <result> <by> [strengthening] : writes /verif/seeded/<NAME>/meta.json from the
sub-agent's meta (meta.agent.json), the confirmation logs of tools/seedconfirm.sh and my verdict."""
import json, os, re, sys
name, wt, result, by = sys.argv[1:5]
strength = sys.argv[5] if len(sys.argv) > 5 else ""
d = "/verif/seeded/%s" % name
a = json.load(open(os.path.join(d, "meta.agent.json")))
rc = open("/tmp/seed-%s-rc.txt" % name).read().split()
suite = [l.strip() for l in open("/tmp/seed-%s-suite.log" % name) if l.startswith("ok") or "FAIL" in l]
pid = name.split("-")[0]
rnd = int(name.split("-r")[1]) if "-r" in name else 1
base = os.popen("git -C %s log --oneline -1" % wt).read().strip()
m = {
    "property": pid, "round": rnd,
    "base_commit": base + " (relab/gorums main of this sandbox at seeding time)",
    "breaks": a.get("breaks"), "summary": a.get("summary"),
    "needs_to_manifest": a.get("needs") or a.get("needs_to_manifest"),
    "files_changed": a.get("files_changed"),
    "author": "fresh sub-agent given only the property text, its own git worktree and one-paragraph summaries of the earlier seeds to differ from (nothing from /verif)",
    "confirmed_by_me": {
        "demo_cmd": a.get("demo_cmd"),
        "demo_with_change_exit": rc[0], "demo_without_change_exit": rc[1],
        "existing_suite_with_change": " | ".join(suite),
        "how": "tools/seedconfirm.sh with ALT=1: clean checkout of the worktree, git apply patch.diff, demo fails; git apply -R, demo passes; patch re-applied, existing suite ok; then a copy of /verif is run against the worktree with the change applied (tools/altcheck.sh; /repo is not touched)",
    },
    "detection": {"result": result, "by": by},
}
if strength:
    m["detection"]["strengthening"] = strength
json.dump(m, open(os.path.join(d, "meta.json"), "w"), indent=1)
os.remove(os.path.join(d, "meta.agent.json"))
print("wrote", os.path.join(d, "meta.json"))
