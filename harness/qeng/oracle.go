package qeng

import (
	"fmt"
	"regexp"
	"sort"
	"strconv"
	"strings"
	"sync"

	"google.golang.org/protobuf/proto"

	"verif/puppet"
	"verif/scen"
)

// Violation is a failed oracle clause.
type Violation struct {
	Key string
	Msg string
}

func viol(key, f string, a ...any) *Violation {
	return &Violation{Key: key, Msg: fmt.Sprintf(f, a...)}
}

func family(kind string) string {
	switch {
	case scen.IsStream(kind):
		return "corrstream"
	case scen.IsCorr(kind):
		return "corr"
	case scen.IsAsync(kind):
		return "async"
	case scen.IsQC(kind):
		return "qc"
	}
	return strings.ToLower(kind)
}

// facts extracted from the history of the subject call
type facts struct {
	qfs     []scen.Event
	ret     *scen.Event
	exits   map[int]scen.Event // server -> exit event of the subject token
	enters  map[int][]scen.Event
	stops   map[int]int // server -> logical time of the stop event
	cancelT int
}

func extract(r Result) facts {
	f := facts{exits: map[int]scen.Event{}, enters: map[int][]scen.Event{}, stops: map[int]int{}, cancelT: -1}
	for i := range r.Events {
		e := r.Events[i]
		if e.Kind == "stop" {
			if _, ok := f.stops[e.Server]; !ok {
				f.stops[e.Server] = e.T
			}
		}
		if e.Token != r.Token {
			continue
		}
		switch e.Kind {
		case "qf":
			f.qfs = append(f.qfs, e)
		case "return":
			if f.ret == nil {
				ev := e
				f.ret = &ev
			}
		case "exit":
			if _, ok := f.exits[e.Server]; !ok {
				f.exits[e.Server] = e
			}
		case "enter":
			f.enters[e.Server] = append(f.enters[e.Server], e)
		case "cancel":
			if f.cancelT < 0 {
				f.cancelT = e.T
			}
		}
	}
	return f
}

// CheckCommon reports harness-level outcomes shared by the quorum properties:
// a confirmed hang of the subject call.
func CheckHang(c Case, r Result, prop string) *Violation {
	if r.Hung != "" {
		return viol(prop+"/"+family(c.Call.Kind)+"/keeps-waiting/"+sigKey(r.Hung), "the call did not end within 2x%v although it had to: %s", scen.B, r.Hung)
	}
	return nil
}

func sigKey(h string) string {
	if i := strings.Index(h, " ["); i >= 0 {
		return h[:i]
	}
	return h
}

// CheckC01 evaluates the quorum-function discipline and provenance clauses.
func CheckC01(c Case, r Result) *Violation {
	f := extract(r)
	fam := family(c.Call.Kind)
	k := func(clause string) string { return "C01/" + fam + "/" + clause }
	srvOf := map[uint32]int{}
	for s, id := range r.IDs {
		srvOf[id] = s
	}
	targeted := map[int]bool{}
	for _, s := range r.Targets {
		targeted[s] = true
	}
	doneSeen := false
	for i, q := range f.qfs {
		if q.BadType != "" {
			return viol(k("wrong-qf"), "%s", q.BadType)
		}
		if q.Inflight > 1 {
			return viol(k("overlap"), "invocation %d of the quorum function started while another was running", q.N)
		}
		if !q.ReqOK {
			return viol(k("request"), "invocation %d was not shown the caller's original request", q.N)
		}
		if q.N != i+1 {
			return viol(k("overlap"), "invocation counter %d at position %d (concurrent invocations)", q.N, i+1)
		}
		if doneSeen {
			return viol(k("after-quorum"), "quorum function invoked again (invocation %d) after it had reported a quorum", q.N)
		}
		if q.AfterRet {
			return viol(k("after-return"), "quorum function invoked (invocation %d) after the call had returned", q.N)
		}
		if !scen.IsStream(c.Call.Kind) {
			if len(q.Replies) != i+1 {
				return viol(k("growth"), "invocation %d was shown %d replies, expected %d (one new successful reply per invocation)", q.N, len(q.Replies), i+1)
			}
		}
		if i > 0 {
			prev := f.qfs[i-1].Replies
			for id, pr := range prev {
				cur, ok := q.Replies[id]
				if !ok {
					return viol(k("growth"), "invocation %d lost the entry of node %d that invocation %d had", q.N, id, q.N-1)
				}
				if !scen.IsStream(c.Call.Kind) && cur != pr {
					return viol(k("growth"), "invocation %d shows a different reply for node %d than invocation %d", q.N, id, q.N-1)
				}
			}
		}
		for id, rep := range q.Replies {
			s, ok := srvOf[id]
			if !ok {
				return viol(k("provenance"), "reply set has an entry for unknown node id %d", id)
			}
			if !targeted[s] {
				return viol(k("provenance"), "reply set has an entry for node %d (server %d) which was not targeted", id, s)
			}
			if rep.Token != r.Token {
				return viol(k("provenance"), "entry of node %d holds a reply to another call (token %d, want %d)", id, rep.Token, r.Token)
			}
			if int(rep.Node) != s {
				return viol(k("provenance"), "entry of node %d (server %d) holds a reply produced by server %d", id, s, rep.Node)
			}
			p := c.plan(s)
			if p.Kind == "error" || p.Kind == "replyerr" || p.Kind == "down" {
				return viol(k("failed-node-entry"), "reply set has an entry for node %d whose handler failed / which is down (%s)", id, p.Kind)
			}
			if !scen.IsStream(c.Call.Kind) {
				ex, ok := f.exits[s]
				if !ok {
					return viol(k("provenance"), "entry for node %d although its handler has not produced a reply", id)
				}
				if ex.T > q.T {
					return viol(k("provenance"), "entry for node %d shown before its handler produced the reply", id)
				}
				if ex.Serial != rep.Serial || ex.PayHash != rep.PayHash {
					return viol(k("provenance"), "entry of node %d differs from what its handler produced (serial %d/%d, payload hash %x/%x)", id, rep.Serial, ex.Serial, rep.PayHash, ex.PayHash)
				}
				if scen.HasPerNode(c.Call.Kind) {
					want, _ := perNodeTag(c.Call, s)
					if rep.NodeTag != want {
						return viol(k("provenance"), "entry of node %d answers a request with tag %d, this node's request had tag %d", id, rep.NodeTag, want)
					}
				}
			}
		}
		if q.Done {
			doneSeen = true
		}
	}
	if f.ret != nil {
		switch f.ret.Outcome {
		case "value":
			if len(f.qfs) == 0 || !f.qfs[len(f.qfs)-1].Done {
				return viol(k("success-without-quorum"), "the call succeeded although its quorum function never reported a quorum (in its last invocation)")
			}
			last := f.qfs[len(f.qfs)-1]
			if !scen.IsCorr(c.Call.Kind) { // correctable values are C11's subject
				if f.ret.Value == nil || f.ret.Value.Nonce != last.Nonce {
					got := uint64(0)
					if f.ret.Value != nil {
						got = f.ret.Value.Nonce
					}
					return viol(k("value"), "the call returned a value (nonce %d) that is not the one its quorum function returned with 'quorum reached' (nonce %d)", got, last.Nonce)
				}
				wantT := "Rep"
				if scen.IsCustom(c.Call.Kind) {
					wantT = "Custom"
				}
				if f.ret.ValType != wantT {
					return viol(k("value-type"), "returned value has type %s, want %s", f.ret.ValType, wantT)
				}
			}
		case "error":
			if doneSeen && !scen.IsCorr(c.Call.Kind) {
				return viol(k("quorum-ignored"), "the quorum function reported a quorum but the call failed: %s", firstLine(f.ret.ErrText))
			}
		case "panic":
			if !scen.IsCorr(c.Call.Kind) {
				return viol(k("panic"), "%s", f.ret.ErrText)
			}
		}
	}
	// every quorum-function event in the history (background calls too) only
	// holds replies to its own call
	for _, e := range r.Events {
		if e.Kind != "qf" || e.Token == r.Token {
			continue
		}
		for id, rep := range e.Replies {
			if rep.Token != e.Token {
				return viol("C01/background/provenance", "a background call (token %d) was shown a reply to token %d under node %d", e.Token, rep.Token, id)
			}
		}
	}
	return nil
}

func perNodeTag(spec scen.CallSpec, s int) (uint32, bool) {
	v, ok := spec.PerNode[s]
	if !ok {
		return 0, true
	}
	if v == "skip" {
		return 0, false
	}
	var k uint32
	fmt.Sscanf(v, "tag:%d", &k)
	return k, true
}

func firstLine(s string) string {
	if i := strings.Index(s, "\n"); i >= 0 {
		return s[:i]
	}
	return s
}

var countsRe = regexp.MustCompile(`\(errors: (\d+), replies: (\d+)\)`)

// ParseCounts extracts the (errors, replies) numbers of a QuorumCallError text.
func ParseCounts(errText string) (e, r int, ok bool) {
	m := countsRe.FindStringSubmatch(errText)
	if m == nil {
		return 0, 0, false
	}
	e, _ = strconv.Atoi(m[1])
	r, _ = strconv.Atoi(m[2])
	return e, r, true
}

// CheckC02 evaluates the outcome model.
func CheckC02(c Case, r Result) *Violation {
	f := extract(r)
	fam := family(c.Call.Kind)
	k := func(clause string) string { return "C02/" + fam + "/" + clause }
	if v := CheckHang(c, r, "C02"); v != nil {
		return v
	}
	if r.EarlyDone != "" {
		return viol(k("done-early"), "%s", r.EarlyDone)
	}
	if r.GetDiffer != "" {
		return viol(k("get-unstable"), "%s", r.GetDiffer)
	}
	if r.PendingRet {
		return viol(k("early-return"), "the call returned (%s) although no quorum was reported, not every targeted node had answered and the context was live", outcomeText(f.ret))
	}
	if f.ret == nil {
		return nil // nothing to judge (inconclusive cases are handled by the caller)
	}
	ret := f.ret
	Q := false
	for _, q := range f.qfs {
		if q.Done && q.T < ret.T {
			Q = true
		}
	}
	failedBefore, answeredBefore := 0, 0
	X := true
	for _, s := range r.Targets {
		p := c.plan(s)
		ex, exited := f.exits[s]
		stopT, stopped := f.stops[s]
		switch {
		case p.Kind == "down":
			failedBefore++
			answeredBefore++
		case exited && ex.T < ret.T:
			answeredBefore++
			if ex.ErrCode != 0 || p.Kind == "error" || p.Kind == "replyerr" {
				failedBefore++
			} else if stopped && stopT < ret.T {
				// replied, but the server was stopped around the same time: may count as reply or failure
			}
		case stopped && stopT < ret.T:
			failedBefore++
			answeredBefore++
		default:
			X = false
		}
	}
	C := strings.HasPrefix(ret.Note, "ctx:")
	switch {
	case ret.Outcome == "value":
		if !Q {
			return viol(k("success-without-quorum"), "success although no invocation of the quorum function reported a quorum")
		}
	case ret.Outcome == "error" && ret.IsInc:
		if Q {
			return viol(k("incomplete-after-quorum"), "Incomplete although the quorum function had reported a quorum")
		}
		if scen.IsStream(c.Call.Kind) {
			// exhaustion of a stream call = every node failed
			if failedBefore != len(r.Targets) {
				return viol(k("incomplete-early"), "stream call ended Incomplete although only %d of %d nodes had failed", failedBefore, len(r.Targets))
			}
			break
		}
		if !X {
			return viol(k("incomplete-early"), "Incomplete although not every targeted node had answered (%d of %d): %s", answeredBefore, len(r.Targets), firstLine(ret.ErrText))
		}
		e, rr, ok := ParseCounts(ret.ErrText)
		if !ok {
			return viol(k("incomplete-text"), "Incomplete error does not report its counts: %q", firstLine(ret.ErrText))
		}
		if e+rr != len(r.Targets) {
			return viol(k("incomplete-counts"), "errors (%d) + replies (%d) != targeted nodes (%d)", e, rr, len(r.Targets))
		}
		if rr != len(f.qfs) {
			return viol(k("incomplete-counts"), "reports %d replies but the quorum function was invoked %d times", rr, len(f.qfs))
		}
	case ret.Outcome == "error" && (ret.IsCanc || ret.IsDead):
		if !C {
			return viol(k("ctx-error-live-ctx"), "context error %q although the context had not ended", firstLine(ret.ErrText))
		}
		if !ret.IsCtx {
			return viol(k("ctx-error-kind"), "error %q does not match the context's error (%s) under errors.Is", firstLine(ret.ErrText), ret.Note)
		}
		if Q {
			return viol(k("quorum-ignored"), "context error although the quorum function had reported a quorum")
		}
		if e, rr, ok := ParseCounts(ret.ErrText); ok {
			if rr > len(f.qfs) {
				return viol(k("ctx-counts"), "reports %d replies but the quorum function was invoked only %d times", rr, len(f.qfs))
			}
			if e+rr > len(r.Targets) {
				return viol(k("ctx-counts"), "errors (%d) + replies (%d) exceed the targeted nodes (%d)", e, rr, len(r.Targets))
			}
		}
	case ret.Outcome == "panic":
		if scen.IsCorr(c.Call.Kind) {
			break // typed-accessor panics are C11's subject
		}
		return viol(k("other-outcome"), "%s", ret.ErrText)
	default:
		return viol(k("other-outcome"), "the call ended with an outcome that is neither success, Incomplete nor the context's error: %q", firstLine(ret.ErrText))
	}
	return nil
}

func outcomeText(e *scen.Event) string {
	if e == nil {
		return "?"
	}
	if e.Outcome == "value" {
		return "success"
	}
	return firstLine(e.ErrText)
}

// observeGets calls Get repeatedly and concurrently on a completed future.
func observeGets(call *scen.Call, n int) string {
	if n <= 0 {
		n = 2
	}
	type res struct {
		v   proto.Message
		err error
	}
	out := make([]res, n)
	var wg sync.WaitGroup
	for i := 0; i < n; i++ {
		wg.Add(1)
		go func(i int) {
			defer wg.Done()
			v, err := call.AsyncGet()
			out[i] = res{v, err}
		}(i)
	}
	// every library call is bounded: a Get on a completed future that blocks is a finding, not a stall of the harness
	all := make(chan struct{})
	go func() { wg.Wait(); close(all) }()
	if r, sig := scen.Await(all, scen.B); r == scen.Hung {
		return fmt.Sprintf("%d concurrent Get calls on the completed future did not all return within 2x%v: %s", n, scen.B, sig)
	}
	if !call.Async.Done() {
		return "Done() is false after the future completed"
	}
	var v0 proto.Message
	var e0 error
	one := make(chan struct{})
	go func() { v0, e0 = call.AsyncGet(); close(one) }()
	if r, sig := scen.Await(one, scen.B); r == scen.Hung {
		return fmt.Sprintf("a further Get on the completed future (after Done() had reported true) did not return within 2x%v: %s", scen.B, sig)
	}
	if !call.Async.Done() {
		return "Done() is false after it had reported true and Get had returned"
	}
	for i, o := range out {
		if (o.err == nil) != (e0 == nil) || (o.err != nil && o.err.Error() != e0.Error()) {
			return fmt.Sprintf("Get #%d returned error %v, another Get returned %v", i, o.err, e0)
		}
		if !sameMsg(o.v, v0) {
			return fmt.Sprintf("Get #%d returned a different value than another Get", i)
		}
	}
	if call.Err == nil && call.Value != nil && !sameMsg(call.Value, v0) {
		return "Get after completion differs from the first Get"
	}
	return ""
}

func sameMsg(a, b proto.Message) bool {
	an, bn := isNilMsg(a), isNilMsg(b)
	if an || bn {
		return an == bn
	}
	return proto.Equal(a, b)
}

func isNilMsg(m proto.Message) bool {
	switch v := m.(type) {
	case nil:
		return true
	case *puppet.Rep:
		return v == nil
	case *puppet.Custom:
		return v == nil
	}
	return false
}

// Classes returns classification labels of a case/run for the evidence.
func Classes(c Case, r Result) (classes []string, f facts) {
	f = extract(r)
	classes = append(classes, "kind="+c.Call.Kind, fmt.Sprintf("targets=%d", len(r.Targets)))
	kinds := map[string]bool{}
	for _, s := range r.Targets {
		kinds[c.plan(s).Kind] = true
	}
	var ks []string
	for k := range kinds {
		ks = append(ks, k)
	}
	sort.Strings(ks)
	for _, k := range ks {
		classes = append(classes, "node:"+k)
	}
	if f.ret != nil {
		switch {
		case f.ret.Outcome == "value":
			classes = append(classes, "outcome=success")
		case f.ret.IsInc:
			classes = append(classes, "outcome=incomplete")
		case f.ret.IsCanc || f.ret.IsDead:
			classes = append(classes, "outcome=ctx")
		default:
			classes = append(classes, "outcome=other")
		}
	}
	if c.Call.Ctx != "" && c.Call.Ctx != "background" {
		classes = append(classes, "ctx="+c.Call.Ctx)
	}
	if len(c.Bg) > 0 {
		classes = append(classes, "background-calls")
	}
	if c.Call.Script.Kind != "" && c.Call.Script.Kind != "threshold" {
		classes = append(classes, "script="+c.Call.Script.Kind)
	}
	if c.Call.Script.SlowUs > 0 {
		classes = append(classes, "slow-qf")
	}
	if r.Pending {
		classes = append(classes, "pending-at-end")
	}
	return classes, f
}

var nodeLineRe = regexp.MustCompile(`(?m)^\tnode (\d+): (.*)$`)

// CheckC07 evaluates the failure-reporting clauses. It returns the violation,
// extra classes and whether the case is non-trivial.
func CheckC07(c Case, r Result) (*Violation, []string, bool) {
	f := extract(r)
	fam := family(c.Call.Kind)
	k := func(clause string) string { return "C07/" + fam + "/" + clause }
	var classes []string
	if v := CheckHang(c, r, "C07"); v != nil {
		return v, classes, false
	}
	if f.ret == nil {
		return nil, classes, false
	}
	ret := f.ret
	// classify every targeted node from the observed history
	type nodeFact struct {
		kind string // healthy | handler-error | conn | ambiguous-reply (replied, stopped around) | ambiguous-error
		plan NodePlan
	}
	facts := map[int]nodeFact{}
	failing, kinds := 0, map[string]bool{}
	stopAfterEnter := false
	for _, s := range r.Targets {
		p := c.plan(s)
		ex, exited := f.exits[s]
		stopT, stopped := f.stops[s]
		nf := nodeFact{plan: p}
		entered := len(f.enters[s]) > 0
		switch {
		case p.Kind == "down":
			nf.kind = "conn"
		case stopped && stopT < ret.T && (!exited || ex.T > stopT):
			nf.kind = "conn"
			if entered && f.enters[s][0].T < stopT {
				stopAfterEnter = true
				classes = append(classes, "stopped-while-held")
			} else {
				classes = append(classes, "stopped-before-enter")
			}
		case stopped && stopT < ret.T && exited:
			// the answer was produced before the stop: it may or may not have got through
			if p.Kind == "reply" {
				nf.kind = "ambiguous-reply"
			} else {
				nf.kind = "ambiguous-error"
			}
			classes = append(classes, "stopped-after-answer")
		case p.Kind == "error" || p.Kind == "replyerr":
			nf.kind = "handler-error"
		default:
			nf.kind = "healthy"
		}
		facts[s] = nf
		if nf.kind != "healthy" {
			failing++
			kinds[nf.kind+"/"+p.Kind] = true
		}
	}
	nontrivial := failing >= 1 && (stopAfterEnter || len(kinds) >= 2 || kinds["handler-error/error"] || kinds["handler-error/replyerr"])
	// replies seen by the quorum function
	seen := map[int]bool{}
	for _, q := range f.qfs {
		for id := range q.Replies {
			for s, sid := range r.IDs {
				if sid == id {
					seen[s] = true
				}
			}
		}
	}
	for s, nf := range facts {
		if seen[s] && (nf.kind == "handler-error" || nf.kind == "conn" || nf.kind == "ambiguous-error") {
			return viol(k("reply-from-failing-node"), "the quorum function was shown a reply of node %d, which failed (%s)", r.IDs[s], nf.kind), classes, nontrivial
		}
	}
	if ret.Outcome == "value" {
		classes = append(classes, "tolerated")
		return nil, classes, nontrivial
	}
	if ret.Outcome != "error" {
		return nil, classes, nontrivial
	}
	// error lines
	lines := map[int][]string{}
	for _, m := range nodeLineRe.FindAllStringSubmatch(ret.ErrText, -1) {
		id64, _ := strconv.ParseUint(m[1], 10, 32)
		srv := -1
		for s, sid := range r.IDs {
			if uint64(sid) == id64 {
				srv = s
			}
		}
		if srv < 0 {
			// a line for an id that is not a node of the manager: could be handler text; ignore unless no target matches
			continue
		}
		lines[srv] = append(lines[srv], m[2])
	}
	targeted := map[int]bool{}
	for _, s := range r.Targets {
		targeted[s] = true
	}
	for s, ls := range lines {
		if !targeted[s] && len(ls) > 0 && !msgMentionsNode(c, r.IDs[s]) {
			return viol(k("error-for-untargeted-node"), "error lists node %d, which was not targeted", r.IDs[s]), classes, nontrivial
		}
	}
	if ret.IsInc {
		// exhaustion: every failing node exactly once, healthy nodes never
		for _, s := range r.Targets {
			nf := facts[s]
			n := len(lines[s])
			if msgMentionsNode(c, r.IDs[s]) {
				continue // a handler message imitates a node line for this id; counting is unreliable
			}
			switch nf.kind {
			case "healthy":
				if n != 0 {
					return viol(k("error-for-healthy-node"), "node %d answered with a reply but the error lists it: %q", r.IDs[s], lines[s][0]), classes, nontrivial
				}
			case "handler-error", "conn", "ambiguous-error":
				if n != 1 {
					return viol(k("error-count"), "failing node %d (%s) is listed %d times in the error, want exactly once: %s", r.IDs[s], nf.kind, n, ret.ErrText), classes, nontrivial
				}
			case "ambiguous-reply":
				want := 1
				if seen[s] {
					want = 0
				}
				if n != want {
					return viol(k("error-count"), "node %d (replied, then stopped; reply seen by the quorum function: %v) is listed %d times", r.IDs[s], seen[s], n), classes, nontrivial
				}
			}
		}
	}
	// content of the lines (also for context errors: what is listed must be right)
	for s, ls := range lines {
		if !targeted[s] || msgMentionsNode(c, r.IDs[s]) {
			continue
		}
		nf := facts[s]
		for _, l := range ls {
			switch nf.kind {
			case "handler-error":
				code, msg := expectedStatus(nf.plan)
				if !strings.Contains(l, "code = "+code) || !strings.Contains(l, "desc = "+firstLine(msg)) {
					return viol(k("handler-status-lost"), "node %d: handler failed with (%s, %q) but the error line is %q", r.IDs[s], code, msg, l), classes, nontrivial
				}
			case "conn":
				if !unavailableType(l) {
					return viol(k("conn-error-type"), "node %d: connection failure reported as %q, which is not of unavailable type", r.IDs[s], l), classes, nontrivial
				}
			}
		}
	}
	return nil, classes, nontrivial
}

func msgMentionsNode(c Case, id uint32) bool {
	for _, p := range c.Nodes {
		if strings.Contains(p.ErrMsg, "node ") {
			return true
		}
	}
	return false
}

func expectedStatus(p NodePlan) (string, string) {
	if p.Plain {
		return "Unknown", p.ErrMsg
	}
	return codeName(p.ErrCode), p.ErrMsg
}

var codeNames = []string{"OK", "Canceled", "Unknown", "InvalidArgument", "DeadlineExceeded", "NotFound", "AlreadyExists", "PermissionDenied",
	"ResourceExhausted", "FailedPrecondition", "Aborted", "OutOfRange", "Unimplemented", "Internal", "Unavailable", "DataLoss", "Unauthenticated"}

func codeName(c int) string {
	if c >= 0 && c < len(codeNames) {
		return codeNames[c]
	}
	return fmt.Sprintf("Code(%d)", c)
}

// unavailableType: gorums' own "stream is down" and grpc transport errors
// carry codes.Unavailable; a send on a broken stream reports io.EOF.
func unavailableType(line string) bool {
	// (a bare "context deadline exceeded" is not: it would blame the caller's context, which is alive,
	// for the manager's internal dial timeout)
	return strings.Contains(line, "code = Unavailable") || line == "EOF" || strings.HasSuffix(line, ": EOF") || strings.Contains(line, "connection refused")
}
