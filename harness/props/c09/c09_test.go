// C09 — finished or abandoned calls never disable a node.
package c09

import (
	"fmt"
	"strings"
	"sync/atomic"
	"testing"

	"pgregory.net/rapid"

	"verif/peng"
	"verif/scen"
	"verif/vt"
)

func gen(t *rapid.T) peng.Case {
	if rapid.IntRange(0, 7).Draw(t, "cancelOnReturnShape") == 0 {
		return genCancelOnReturn(t)
	}
	c := peng.GenProgram(t, peng.Bias{MinN: 1, MaxN: 4, MaxThreads: 6, MinOps: 4, MaxOps: 40, MaxMgrs: 1, Kinds: scen.AllKinds, Barriers: true,
		Cancel: true, MaxSleepUs: 3000, HoldNoRelUs: 6000, SlowQFUs: 20000, StreamItems: 6, AwaitProb: 3, ErrorNodes: true, FullQuorum: true,
		ReleaseModes: []string{"", "", "early"}})
	c.Probe = true
	// ... and then one quorum call (and sometimes an async or correctable one) that needs every node
	c.ProbeKinds = []string{"QC"}
	if k := rapid.SampledFrom([]string{"", "", "Async", "Corr", "QCPerNode"}).Draw(t, "probeKind2"); k != "" {
		c.ProbeKinds = append(c.ProbeKinds, k)
	}
	// requests that are too large to be sent: SendMsg fails although the stream is healthy
	if rapid.IntRange(0, 3).Draw(t, "sendLimit") == 0 {
		c.Mgrs[0].MaxSendBytes = 4096
		for i := range c.Ops {
			if c.Ops[i].Kind == "call" && rapid.IntRange(0, 3).Draw(t, fmt.Sprintf("big%d", i)) == 0 {
				c.Ops[i].Call.Payload = 6000
			}
		}
	}
	// one or two stream writes fail (injected by a client stream interceptor; nothing is written)
	// under calls whose contexts are alive
	if rapid.IntRange(0, 3).Draw(t, "failSend") == 0 {
		c.Mgrs[0].FailSendAt = rapid.SliceOfNDistinct(rapid.IntRange(1, 80), 1, 2, rapid.ID[int]).Draw(t, "failSendAt")
	}
	// the connections to a server break underneath it once or twice (it keeps listening)
	if rapid.IntRange(0, 3).Draw(t, "cut") == 0 {
		k := rapid.IntRange(1, 2).Draw(t, "ncut")
		for i := 0; i < k; i++ {
			op := peng.Op{Kind: "cut", Thread: rapid.IntRange(0, c.Threads-1).Draw(t, fmt.Sprintf("cutThread%d", i)),
				Call: scen.CallSpec{Node: rapid.IntRange(0, c.N-1).Draw(t, fmt.Sprintf("cutNode%d", i))}}
			at := rapid.IntRange(0, len(c.Ops)).Draw(t, fmt.Sprintf("cutAt%d", i))
			c.Ops = append(c.Ops[:at], append([]peng.Op{op}, c.Ops[at:]...)...)
		}
	}
	// calls of methods the servers have no handler for (the request is skipped by the server:
	// a two-way call ends by its deadline, a one-way call when it is sent)
	if rapid.IntRange(0, 3).Draw(t, "unhandled") == 0 {
		k := rapid.IntRange(1, 3).Draw(t, "nUnhandled")
		for i := 0; i < k; i++ {
			op := peng.Op{Kind: "call", Thread: rapid.IntRange(0, c.Threads-1).Draw(t, fmt.Sprintf("uThread%d", i)), Behav: map[int]scen.Behaviour{}}
			op.Call = scen.CallSpec{Kind: "UnhandledRPC", Node: rapid.IntRange(0, c.N-1).Draw(t, fmt.Sprintf("uNode%d", i)), Ctx: "deadline",
				DeadlineUs: rapid.IntRange(200, 20000).Draw(t, fmt.Sprintf("uDeadline%d", i))}
			if rapid.IntRange(0, 2).Draw(t, fmt.Sprintf("uOneWay%d", i)) == 0 {
				op.Call.Kind, op.Call.Ctx = "UnhandledUnicast", "background"
				op.Call.NoSendWait = rapid.Bool().Draw(t, fmt.Sprintf("uNsw%d", i))
			}
			at := rapid.IntRange(0, len(c.Ops)).Draw(t, fmt.Sprintf("uAt%d", i))
			c.Ops = append(c.Ops[:at], append([]peng.Op{op}, c.Ops[at:]...)...)
		}
	}
	// a short dial timeout and probes that take longer than it: nothing that was set up under the
	// dial timeout may limit how long a later call can take
	if rapid.IntRange(0, 3).Draw(t, "slowProbes") == 0 {
		c.Mgrs[0].TightDial, c.Mgrs[0].DialTimeoutMs = true, 15
		c.ProbeSleepUs = 25000
	}
	c.GoMaxProcs = rapid.SampledFrom([]int{0, 0, 1, 2, 4}).Draw(t, "gomaxprocs")
	c.Jitter = peng.GenJitter(t)
	return c
}

// genCancelOnReturn: the everyday shape - one goroutine, one call after the other, every call under
// a context of its own that is cancelled as soon as the call has returned (defer cancel()). Servers
// answer at once, nothing fails, nothing is abandoned: every call must be answered. The schedule
// jitter spreads the sender's and the watcher's steps apart.
func genCancelOnReturn(t *rapid.T) peng.Case {
	n := rapid.IntRange(1, 2).Draw(t, "n")
	c := peng.Case{N: n, Threads: 1, Probe: true}
	c.Mgrs = []scen.MgrOpts{{SendBuffer: rapid.SampledFrom([]uint{0, 0, 2}).Draw(t, "sendBuffer"), DialTimeoutMs: 50, BackoffMs: 20}}
	c.Configs = [][]int{seqInts(n)}
	k := rapid.IntRange(20, 120).Draw(t, "ncalls")
	for i := 0; i < k; i++ {
		kind := rapid.SampledFrom([]string{"RPC", "RPC", "QC", "QCCustom"}).Draw(t, fmt.Sprintf("kind%d", i))
		op := peng.Op{Kind: "call", Thread: 0, CancelOnReturn: true}
		op.Call = scen.CallSpec{Kind: kind, Node: rapid.IntRange(0, n-1).Draw(t, fmt.Sprintf("node%d", i)), Ctx: "cancel", Script: scen.QScript{Kind: "threshold", Q: n}}
		c.Ops = append(c.Ops, op)
	}
	c.Jitter = &peng.Jitter{Seed: rapid.Uint64().Draw(t, "jitterSeed"), Gosched: 3000,
		Sleep: rapid.SampledFrom([]uint32{150, 600, 2000}).Draw(t, "jitterSleep"), MaxSleepUs: rapid.SampledFrom([]int{200, 1000}).Draw(t, "jitterMaxSleepUs")}
	return c
}

func seqInts(n int) []int {
	s := make([]int, n)
	for i := range s {
		s[i] = i
	}
	return s
}

// cancelOnReturnShape reports whether the case is of the shape genCancelOnReturn draws.
func cancelOnReturnShape(c peng.Case) bool {
	if len(c.Ops) == 0 {
		return false
	}
	for _, op := range c.Ops {
		if op.Kind != "call" || !op.CancelOnReturn {
			return false
		}
	}
	return true
}

func run(c peng.Case) vt.Verdict {
	r := peng.Run(c, peng.Hooks{})
	if r.SetupErr != "" {
		return vt.Verdict{OK: true, Inconclusive: true, Msg: r.SetupErr, Classes: []string{"setup-error"}}
	}
	var classes []string
	if cancelOnReturnShape(c) {
		classes = append(classes, "sequential-calls-cancelled-on-return")
		// a later call is a call like any other: it is delivered and answered
		for _, e := range r.Events {
			if e.Kind == "return" && e.Outcome == "error" && !e.IsCanc {
				return vt.Verdict{OK: false, Key: "C09/later-call-fails/contexts-cancelled-on-return", History: r.Events, Classes: classes,
					Msg: fmt.Sprintf("one goroutine makes %d calls in a row, each under a context of its own that it cancels as soon as the call has returned; servers answer at once and nothing fails, but call %d (%s) ended with %q", len(c.Ops), e.Call, e.Method, e.ErrText)}
			}
		}
	}
	// measured non-triviality
	accepts := map[int]int{}
	slowqf, abandoned, cancelled := false, false, false
	retT := map[uint64]int{}
	for _, e := range r.Events {
		switch e.Kind {
		case "accept":
			accepts[e.Server]++
		case "return":
			retT[e.Token] = e.T
		case "cancel":
			cancelled = true
		}
	}
	for _, e := range r.Events {
		if e.Kind == "send" {
			if rt, ok := retT[e.Token]; ok && rt < e.T {
				abandoned = true
			}
		}
	}
	for _, op := range c.Ops {
		if op.Call.Script.SlowUs > 0 {
			slowqf = true
		}
	}
	recreated := false
	for _, n := range accepts {
		if n > 1 {
			recreated = true
		}
	}
	if recreated {
		classes = append(classes, "stream-recreated-after-cancelled-send")
	}
	if abandoned {
		classes = append(classes, "stream-call-abandoned-with-replies-outstanding")
	}
	if slowqf {
		classes = append(classes, "slow-quorum-function")
	}
	if cancelled {
		classes = append(classes, "cancellations")
	}
	if c.ProbeSleepUs > 0 {
		classes = append(classes, "probes-slower-than-the-dial-timeout")
	}
	for _, op := range c.Ops {
		if op.Kind == "call" && scen.IsUnhandled(op.Call.Kind) {
			classes = append(classes, "call-of-method-without-handler")
			slowqf = true // counts as non-trivial
			break
		}
	}
	if len(r.Clients) > 0 && atomic.LoadInt32(&r.Clients[0].SendsFailed) > 0 {
		classes = append(classes, "injected-send-failure")
		slowqf = true // counts as non-trivial
	}
	if r.Cuts > 0 {
		classes = append(classes, "connection-cut")
		slowqf = true // counts as non-trivial
	}
	if c.Mgrs[0].MaxSendBytes > 0 {
		classes = append(classes, "send-size-limit")
		for _, op := range c.Ops {
			if op.Kind == "call" && op.Call.Payload > c.Mgrs[0].MaxSendBytes {
				classes = append(classes, "request-too-large-to-send")
				slowqf = true // counts as non-trivial
				break
			}
		}
	}
	for _, p := range r.Probes {
		if p.Attempts > 1 {
			classes = append(classes, "probe-retried-after-stream-reset")
		}
		if p.Kind != "" {
			if p.Hung != "" {
				return vt.Verdict{OK: false, Key: "C09/node-dead/" + strings.ToLower(p.Kind) + "/" + p.Hung, History: r.Events, Classes: classes,
					Msg: fmt.Sprintf("after the workload drained and every node had answered an RPC, a %s call that needs all nodes did not end within 2x%v: %s", p.Kind, scen.B, p.Hung)}
			}
			if !p.OK {
				return vt.Verdict{OK: false, Key: "C09/node-unusable/" + strings.ToLower(p.Kind), History: r.Events, Classes: classes,
					Msg: fmt.Sprintf("after the workload drained and every node had answered an RPC, %d consecutive %s calls that need all nodes failed, the last with: %s", p.Attempts, p.Kind, p.Err)}
			}
			continue
		}
		if p.Hung != "" {
			return vt.Verdict{OK: false, Key: "C09/node-dead/" + p.Hung, History: r.Events, Classes: classes,
				Msg: fmt.Sprintf("after the workload drained, an RPC with a fresh context to server %d was not answered within 2x%v: %s (hung calls: %v)", p.Server, scen.B, p.Hung, r.Hung)}
		}
		if !p.OK {
			return vt.Verdict{OK: false, Key: "C09/node-unusable", History: r.Events, Classes: classes,
				Msg: fmt.Sprintf("after the workload drained, %d consecutive RPCs with fresh contexts to the reachable server %d failed, the last with: %s", p.Attempts, p.Server, p.Err)}
		}
	}
	// the probe's reply must be genuine
	for _, e := range r.Events {
		if e.Kind == "return" && e.Call >= 10000 && e.Outcome == "value" && e.Value != nil {
			if e.Value.Token != e.Token {
				return vt.Verdict{OK: false, Key: "C09/probe-foreign-reply", History: r.Events, Classes: classes, Msg: "a probe returned a reply to another call"}
			}
		}
	}
	res := vt.Pass(recreated || abandoned || slowqf, classes...)
	res.Inconclusive = r.Late
	return res
}

func TestProp(t *testing.T) {
	vt.Main(t, vt.Spec[peng.Case]{
		ID:           "C09",
		Rule:         "rapid-generated workloads: 4-40 calls of all 20 kinds from 1-6 threads with barriers on 1-4 reachable servers, cancellations and deadlines at generated instants (1 us - 5 ms), thresholds up to the configuration size, correctable completion, slow quorum functions (up to 20 ms), slow/holding/early-releasing/failing handlers that always return, server streams that send up to 6 replies per node, GOMAXPROCS 1/2/4/default, in 1 of 4 cases a client send-size limit with requests too large to send, in 1 of 4 cases one or two injected failures of single stream writes (client stream interceptor), in 1 of 4 cases one or two cuts of the connections to a server that keeps listening, in 1 of 4 cases 1-3 calls (two-way with a deadline, or one-way) of methods of another registered service for which the servers have no handler, in half of the cases seeded jitter at the statement-level yield points of the instrumented runtime; in 1 of 4 cases a 15 ms dial timeout and probe handlers that take 25 ms; after the workload drains, an RPC with a fresh context to every node must return that node's genuine reply, and then a quorum call (sometimes also an async, correctable or per-node call) that needs every node must succeed (black-box probe; a failed probe is confirmed by two goroutine dumps 10 s apart); non-trivial (measured) = a stream was re-created after a cancelled send, or a stream call was abandoned with replies outstanding, or a slow quorum function, or a request too large to send, or an injected write failure that was reached, or a call of a method without a handler; a second case shape (1 in 8): one goroutine makes 20-120 RPC / quorum calls in a row on 1-2 servers that answer at once, each call under a context of its own that is cancelled as soon as the call has returned (defer cancel()), under strong schedule jitter - nothing fails and nothing is abandoned, so every call must be answered (later-call-fails)",
		Gen:          gen,
		Run:          run,
		TrackCurrent: true,
	})
}
