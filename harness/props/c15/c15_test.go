// C15 — the public API is free of data races under concurrent use.
//
// Built with -race. The oracle is the Go race detector: after every generated
// program the detector's log (GORACE log_path) is read; a report with a
// library frame (gorums runtime or generated stubs, not _test files) in
// either stack is a violation keyed by the pair of innermost library
// functions. Reports entirely inside harness code are harness bugs and make
// the case inconclusive.
package c15

import (
	"fmt"
	"os"
	"regexp"
	"sort"
	"strings"
	"testing"
	"time"

	"pgregory.net/rapid"

	"verif/peng"
	"verif/scen"
	"verif/vt"
)

func gen(t *rapid.T) peng.Case {
	b := peng.Bias{MinN: 2, MaxN: 4, MaxThreads: 6, MinOps: 8, MaxOps: 40, MaxMgrs: 1, Kinds: scen.AllKinds, Barriers: false,
		Cancel: true, MaxSleepUs: 1500, SlowQFUs: 300, StreamItems: 3, AwaitProb: 3, ErrorNodes: true, FullQuorum: true, ReleaseModes: []string{"", "early", "helper"}}
	c := peng.GenShape(t, b)
	if c.Threads < 3 {
		c.Threads = 3
	}
	c.GoMaxProcs = rapid.SampledFrom([]int{0, 2, 4, 16}).Draw(t, "gomaxprocs")
	c.Jitter = peng.GenJitter(t)
	nops := rapid.IntRange(b.MinOps, b.MaxOps).Draw(t, "nops")
	for i := 0; i < nops; i++ {
		switch rapid.IntRange(0, 11).Draw(t, fmt.Sprintf("opkind%d", i)) {
		case 0, 3:
			c.Ops = append(c.Ops, peng.Op{Kind: "newconfig", Thread: rapid.IntRange(0, c.Threads-1).Draw(t, fmt.Sprintf("thr%d", i)),
				Us: rapid.IntRange(0, 3).Draw(t, fmt.Sprintf("via%d", i)), Call: scen.CallSpec{Config: rapid.IntRange(0, len(c.Configs)).Draw(t, fmt.Sprintf("ncfg%d", i))}})
		case 1, 4:
			c.Ops = append(c.Ops, peng.Op{Kind: "readers", Thread: rapid.IntRange(0, c.Threads-1).Draw(t, fmt.Sprintf("thr%d", i)), Us: rapid.IntRange(0, 3).Draw(t, fmt.Sprintf("reads%d", i))})
		case 2:
			if rapid.IntRange(0, 2).Draw(t, fmt.Sprintf("restart%d", i)) == 0 {
				s := rapid.IntRange(0, c.N-1).Draw(t, fmt.Sprintf("rnode%d", i))
				thr := rapid.IntRange(0, c.Threads-1).Draw(t, fmt.Sprintf("thr%d", i))
				c.Ops = append(c.Ops, peng.Op{Kind: "stop", Thread: thr, Call: scen.CallSpec{Node: s}},
					peng.Op{Kind: "sleep", Thread: thr, Us: rapid.SampledFrom([]int{100, 2000}).Draw(t, fmt.Sprintf("down%d", i))},
					peng.Op{Kind: "start", Thread: thr, Call: scen.CallSpec{Node: s}})
				continue
			}
			fallthrough
		default:
			c.Ops = append(c.Ops, peng.GenCall(t, c, b, i))
		}
	}
	if rapid.IntRange(0, 2).Draw(t, "closeRace") == 0 {
		// Close racing with the calls of the other threads
		pos := rapid.IntRange(len(c.Ops)/2, len(c.Ops)).Draw(t, "closePos")
		ops := append([]peng.Op(nil), c.Ops[:pos]...)
		ops = append(ops, peng.Op{Kind: "close", Thread: 0, Us: rapid.IntRange(1, 2).Draw(t, "closers")})
		c.Ops = append(ops, c.Ops[pos:]...)
	}
	return c
}

// ---- race log ----

func raceLogPath() string {
	for _, f := range strings.Fields(os.Getenv("GORACE")) {
		if strings.HasPrefix(f, "log_path=") {
			return fmt.Sprintf("%s.%d", strings.TrimPrefix(f, "log_path="), os.Getpid())
		}
	}
	return ""
}

var raceOffset int64

func newRaceText() string {
	p := raceLogPath()
	if p == "" {
		return ""
	}
	b, err := os.ReadFile(p)
	if err != nil || int64(len(b)) <= raceOffset {
		return ""
	}
	txt := string(b[raceOffset:])
	raceOffset = int64(len(b))
	return txt
}

type report struct {
	text   string
	stacks [][]string // function names per stack, innermost first
	files  [][]string
}

var frameFn = regexp.MustCompile(`^  (\S.*)\(\)$`)
var frameFile = regexp.MustCompile(`^      (\S+):(\d+)`)

func parseReports(txt string) []report {
	var out []report
	for _, blk := range strings.Split(txt, "WARNING: DATA RACE") {
		if !strings.Contains(blk, "by goroutine") && !strings.Contains(blk, "by main goroutine") {
			continue
		}
		r := report{text: "WARNING: DATA RACE" + blk}
		var cur, curf []string
		inAccess := false
		flush := func() {
			if inAccess && len(cur) > 0 {
				r.stacks = append(r.stacks, cur)
				r.files = append(r.files, curf)
			}
			cur, curf = nil, nil
		}
		for _, line := range strings.Split(blk, "\n") {
			switch {
			case strings.HasPrefix(line, "Write at") || strings.HasPrefix(line, "Read at") || strings.HasPrefix(line, "Previous write at") || strings.HasPrefix(line, "Previous read at") ||
				strings.HasPrefix(line, "Atomic") || strings.HasPrefix(line, "Previous atomic"):
				flush()
				inAccess = true
			case strings.HasPrefix(line, "Goroutine ") || strings.HasPrefix(line, "=================="):
				flush()
				inAccess = false
			default:
				if m := frameFn.FindStringSubmatch(line); m != nil && inAccess {
					cur = append(cur, m[1])
				} else if m := frameFile.FindStringSubmatch(line); m != nil && inAccess {
					curf = append(curf, m[1])
				}
			}
		}
		flush()
		out = append(out, r)
	}
	return out
}

// libFrame returns the innermost library frame of a stack ("" if none).
func libFrame(fns, files []string) string {
	for i, fn := range fns {
		file := ""
		if i < len(files) {
			file = files[i]
		}
		if strings.HasSuffix(file, "_test.go") {
			continue
		}
		if strings.HasPrefix(fn, "github.com/relab/gorums.") {
			return strings.TrimPrefix(fn, "github.com/relab/gorums.")
		}
		if strings.HasPrefix(fn, "verif/puppet.") && strings.HasSuffix(file, "_gorums.pb.go") {
			return strings.TrimPrefix(fn, "verif/")
		}
	}
	return ""
}

func run(c peng.Case) vt.Verdict {
	newRaceText() // discard what earlier teardown may have produced
	r := peng.Run(c, peng.Hooks{})
	time.Sleep(2 * time.Millisecond)
	txt := newRaceText()
	if r.SetupErr != "" {
		return vt.Verdict{OK: true, Inconclusive: true, Msg: r.SetupErr, Classes: []string{"setup-error"}}
	}
	var classes []string
	kinds := map[string]bool{}
	for _, op := range c.Ops {
		if op.Kind != "call" {
			kinds[op.Kind] = true
		}
		if op.Kind == "call" && (op.CancelUs > 0 || op.Call.Ctx == "deadline") {
			kinds["cancellation"] = true
		}
	}
	for k := range kinds {
		classes = append(classes, "has-"+k)
	}
	sort.Strings(classes)
	harnessOnly := ""
	for _, rep := range parseReports(txt) {
		var libs []string
		for i := range rep.stacks {
			if lf := libFrame(rep.stacks[i], rep.files[i]); lf != "" {
				libs = append(libs, lf)
			} else if len(rep.stacks[i]) > 0 {
				libs = append(libs, "(caller:"+shortFn(rep.stacks[i][0])+")")
			}
		}
		isLib := false
		for _, l := range libs {
			if !strings.HasPrefix(l, "(caller:") {
				isLib = true
			}
		}
		if !isLib {
			harnessOnly = rep.text
			continue
		}
		sort.Strings(libs)
		return vt.Verdict{OK: false, Key: "C15/race/" + strings.Join(libs, "|"), Classes: classes, History: rep.text,
			Msg: fmt.Sprintf("the race detector reports a data race inside the library between %s", strings.Join(libs, " and "))}
	}
	if harnessOnly != "" {
		return vt.Verdict{OK: true, Inconclusive: true, Msg: "race report without a library frame (harness): " + firstLines(harnessOnly, 12), Classes: classes}
	}
	nontrivial := c.Threads >= 2 && (kinds["cancellation"] || kinds["newconfig"] || kinds["stop"] || kinds["close"])
	return vt.Pass(nontrivial, classes...)
}

func shortFn(fn string) string {
	if i := strings.LastIndex(fn, "/"); i >= 0 {
		fn = fn[i+1:]
	}
	return fn
}

func firstLines(s string, n int) string {
	l := strings.Split(s, "\n")
	if len(l) > n {
		l = l[:n]
	}
	return strings.Join(l, " | ")
}

func TestProp(t *testing.T) {
	if raceLogPath() == "" {
		// without a log the detector writes to stderr and the verdict could not see it
		os.Setenv("VERIF_C15_NOLOG", "1")
	}
	vt.Main(t, vt.Spec[peng.Case]{
		ID:           "C15",
		Rule:         "rapid-generated concurrent programs built with the race detector: 3-6 threads, 8-40 operations on one manager over 2-4 servers: calls of all 20 kinds with cancellations/deadlines (1 us - 5 ms), slow/early-releasing/helper-releasing/failing handlers, creation of further configurations (WithNodeIDs / WithNodeList / WithNodeMap, WithoutNodes, And, and And on one long-lived union of overlapping configurations shared by all threads) concurrent with readers of Manager.Nodes/NodeIDs/Node/Size and Configuration.Nodes/NodeIDs, server stop+start, Close racing with calls, GOMAXPROCS 2/4/16/default, registration of further (unreachable) nodes, in half of the cases seeded jitter at the statement-level yield points of the instrumented runtime; oracle: no race-detector report with a library frame (runtime or freshly generated stubs) in either stack; non-trivial = at least 2 threads and one of {cancellation, configuration creation concurrent with readers, restart, Close during calls}",
		Gen:          gen,
		Run:          run,
		TrackCurrent: true,
	})
}
