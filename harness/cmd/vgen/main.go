// Command vgen generates code with the working tree's protoc plugin.
//
//	vgen puppet -bin <dir with protoc-gen-go and protoc-gen-gorums> -out <dir>
package main

import (
	"bytes"
	"flag"
	"fmt"
	"os"
	"path/filepath"
	"time"

	"google.golang.org/protobuf/types/descriptorpb"

	"verif/gen"
)

func main() {
	if len(os.Args) < 2 {
		fmt.Fprintln(os.Stderr, "usage: vgen puppet ...")
		os.Exit(2)
	}
	switch os.Args[1] {
	case "puppet":
		puppet(os.Args[2:])
	default:
		fmt.Fprintln(os.Stderr, "unknown subcommand", os.Args[1])
		os.Exit(2)
	}
}

func writeIfChanged(path string, data []byte) error {
	old, err := os.ReadFile(path)
	if err == nil && bytes.Equal(old, data) {
		return nil
	}
	tmp := fmt.Sprintf("%s.tmp%d", path, os.Getpid())
	if err := os.WriteFile(tmp, data, 0o644); err != nil {
		return err
	}
	return os.Rename(tmp, path)
}

func puppet(args []string) {
	fs := flag.NewFlagSet("puppet", flag.ExitOnError)
	bin := fs.String("bin", "", "directory with the plugin binaries")
	out := fs.String("out", "", "output directory")
	_ = fs.Parse(args)
	if err := os.MkdirAll(*out, 0o755); err != nil {
		fatal(err)
	}
	fd := gen.Build(gen.Puppet())
	files := append(gen.WellKnownDeps(), fd)
	for _, plug := range []string{"protoc-gen-go", "protoc-gen-gorums"} {
		req := gen.Request("", []*descriptorpb.FileDescriptorProto(files), "puppet.proto")
		res, err := gen.RunPlugin(filepath.Join(*bin, plug), req, 60*time.Second, "")
		if err != nil {
			fatal(fmt.Errorf("%s: %w", plug, err))
		}
		if res.TimedOut {
			fatal(fmt.Errorf("%s: timed out", plug))
		}
		if res.ExitCode != 0 || res.Resp == nil {
			fatal(fmt.Errorf("%s: exit %d: %s", plug, res.ExitCode, res.Stderr))
		}
		if res.Resp.Error != nil {
			fatal(fmt.Errorf("%s: %s", plug, res.Resp.GetError()))
		}
		if len(res.Resp.File) != 1 {
			fatal(fmt.Errorf("%s: expected 1 output file, got %d", plug, len(res.Resp.File)))
		}
		for _, f := range res.Resp.File {
			name := filepath.Base(f.GetName())
			if err := writeIfChanged(filepath.Join(*out, name), []byte(f.GetContent())); err != nil {
				fatal(err)
			}
		}
	}
}

func fatal(err error) {
	fmt.Fprintln(os.Stderr, "vgen:", err)
	os.Exit(1)
}
