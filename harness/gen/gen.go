// Package gen builds proto file descriptors programmatically and runs protoc
// plugins as subprocesses (there is no protoc in the sandbox and none is
// needed: a plugin speaks CodeGeneratorRequest/Response on stdin/stdout).
package gen

import (
	"bytes"
	"context"
	"fmt"
	"os/exec"
	"time"

	"github.com/relab/gorums"
	"google.golang.org/protobuf/proto"
	"google.golang.org/protobuf/reflect/protodesc"
	"google.golang.org/protobuf/types/descriptorpb"
	"google.golang.org/protobuf/types/known/emptypb"
	"google.golang.org/protobuf/types/pluginpb"
)

// Method describes one rpc of a generated service definition.
type Method struct {
	Name         string `json:"name"`
	In           string `json:"in"`  // message name; ".pkg.Name" if fully qualified
	Out          string `json:"out"` // idem
	RPC          bool   `json:"rpc,omitempty"`
	Unicast      bool   `json:"unicast,omitempty"`
	Multicast    bool   `json:"multicast,omitempty"`
	Quorumcall   bool   `json:"quorumcall,omitempty"`
	Correctable  bool   `json:"correctable,omitempty"`
	Async        bool   `json:"async,omitempty"`
	PerNodeArg   bool   `json:"per_node_arg,omitempty"`
	CustomReturn string `json:"custom_return_type,omitempty"`
	ClientStream bool   `json:"client_stream,omitempty"`
	ServerStream bool   `json:"server_stream,omitempty"`
	Comment      string `json:"comment,omitempty"`
	// False lists boolean options written out as "= false" (rpc, unicast, multicast,
	// quorumcall, correctable, async, per_node_arg): present in the descriptor, value false.
	False []string `json:"false,omitempty"`
}

// Field is a message field (only what the harness needs).
type Field struct {
	Name     string                                 `json:"name"`
	Number   int32                                  `json:"number"`
	Type     descriptorpb.FieldDescriptorProto_Type `json:"type"`
	TypeName string                                 `json:"type_name,omitempty"`
	Repeated bool                                   `json:"repeated,omitempty"`
	Oneof    *int32                                 `json:"oneof,omitempty"`
	Optional bool                                   `json:"optional,omitempty"`
}

// Message is a (possibly nested) message.
type Message struct {
	Name     string    `json:"name"`
	Fields   []Field   `json:"fields,omitempty"`
	Oneofs   []string  `json:"oneofs,omitempty"`
	Nested   []Message `json:"nested,omitempty"`
	MapEntry bool      `json:"map_entry,omitempty"`
	Enums    []Enum    `json:"enums,omitempty"`
}

// Enum is an enum type.
type Enum struct {
	Name   string   `json:"name"`
	Values []string `json:"values"`
}

// Service is a service with methods.
type Service struct {
	Name    string   `json:"name"`
	Methods []Method `json:"methods"`
}

// File is a generated proto file definition.
type File struct {
	Name      string    `json:"name"` // e.g. "puppet.proto"
	Package   string    `json:"package"`
	GoPackage string    `json:"go_package"`
	Imports   []string  `json:"imports,omitempty"`
	Messages  []Message `json:"messages"`
	Enums     []Enum    `json:"enums,omitempty"`
	Services  []Service `json:"services"`
}

func buildMessage(m Message) *descriptorpb.DescriptorProto {
	d := &descriptorpb.DescriptorProto{Name: proto.String(m.Name)}
	for _, o := range m.Oneofs {
		d.OneofDecl = append(d.OneofDecl, &descriptorpb.OneofDescriptorProto{Name: proto.String(o)})
	}
	for _, f := range m.Fields {
		fd := &descriptorpb.FieldDescriptorProto{
			Name:     proto.String(f.Name),
			JsonName: nil,
			Number:   proto.Int32(f.Number),
			Type:     f.Type.Enum(),
			Label:    descriptorpb.FieldDescriptorProto_LABEL_OPTIONAL.Enum(),
		}
		if f.Repeated {
			fd.Label = descriptorpb.FieldDescriptorProto_LABEL_REPEATED.Enum()
		}
		if f.TypeName != "" {
			fd.TypeName = proto.String(f.TypeName)
		}
		if f.Oneof != nil {
			fd.OneofIndex = proto.Int32(*f.Oneof)
		}
		d.Field = append(d.Field, fd)
	}
	for _, n := range m.Nested {
		d.NestedType = append(d.NestedType, buildMessage(n))
	}
	for _, e := range m.Enums {
		d.EnumType = append(d.EnumType, buildEnum(e))
	}
	if m.MapEntry {
		d.Options = &descriptorpb.MessageOptions{MapEntry: proto.Bool(true)}
	}
	return d
}

func buildEnum(e Enum) *descriptorpb.EnumDescriptorProto {
	d := &descriptorpb.EnumDescriptorProto{Name: proto.String(e.Name)}
	for i, v := range e.Values {
		d.Value = append(d.Value, &descriptorpb.EnumValueDescriptorProto{Name: proto.String(v), Number: proto.Int32(int32(i))})
	}
	return d
}

func qualify(pkg, name string) string {
	if len(name) > 0 && name[0] == '.' {
		return name
	}
	if pkg == "" {
		return "." + name
	}
	return "." + pkg + "." + name
}

// Build turns the definition into a FileDescriptorProto (proto3).
func Build(f File) *descriptorpb.FileDescriptorProto {
	fd := &descriptorpb.FileDescriptorProto{
		Name:       proto.String(f.Name),
		Syntax:     proto.String("proto3"),
		Dependency: append([]string{"gorums.proto"}, f.Imports...),
		Options:    &descriptorpb.FileOptions{GoPackage: proto.String(f.GoPackage)},
	}
	if f.Package != "" {
		fd.Package = proto.String(f.Package)
	}
	for _, m := range f.Messages {
		fd.MessageType = append(fd.MessageType, buildMessage(m))
	}
	for _, e := range f.Enums {
		fd.EnumType = append(fd.EnumType, buildEnum(e))
	}
	for si, s := range f.Services {
		sd := &descriptorpb.ServiceDescriptorProto{Name: proto.String(s.Name)}
		for mi, m := range s.Methods {
			if m.Comment != "" {
				// leading comment of the rpc, as protoc would record it (the templates copy it into the stubs)
				if fd.SourceCodeInfo == nil {
					fd.SourceCodeInfo = &descriptorpb.SourceCodeInfo{}
				}
				fd.SourceCodeInfo.Location = append(fd.SourceCodeInfo.Location, &descriptorpb.SourceCodeInfo_Location{
					Path: []int32{6, int32(si), 2, int32(mi)}, Span: []int32{int32(10 + 3*mi), 2, 40}, LeadingComments: proto.String(m.Comment)})
			}
			md := &descriptorpb.MethodDescriptorProto{
				Name:       proto.String(m.Name),
				InputType:  proto.String(qualify(f.Package, m.In)),
				OutputType: proto.String(qualify(f.Package, m.Out)),
			}
			if m.ClientStream {
				md.ClientStreaming = proto.Bool(true)
			}
			if m.ServerStream {
				md.ServerStreaming = proto.Bool(true)
			}
			opts := &descriptorpb.MethodOptions{}
			has := false
			if m.RPC {
				proto.SetExtension(opts, gorums.E_Rpc, true)
				has = true
			}
			if m.Unicast {
				proto.SetExtension(opts, gorums.E_Unicast, true)
				has = true
			}
			if m.Multicast {
				proto.SetExtension(opts, gorums.E_Multicast, true)
				has = true
			}
			if m.Quorumcall {
				proto.SetExtension(opts, gorums.E_Quorumcall, true)
				has = true
			}
			if m.Correctable {
				proto.SetExtension(opts, gorums.E_Correctable, true)
				has = true
			}
			if m.Async {
				proto.SetExtension(opts, gorums.E_Async, true)
				has = true
			}
			if m.PerNodeArg {
				proto.SetExtension(opts, gorums.E_PerNodeArg, true)
				has = true
			}
			if m.CustomReturn != "" {
				proto.SetExtension(opts, gorums.E_CustomReturnType, m.CustomReturn)
				has = true
			}
			for _, o := range m.False {
				switch o {
				case "rpc":
					proto.SetExtension(opts, gorums.E_Rpc, false)
				case "unicast":
					proto.SetExtension(opts, gorums.E_Unicast, false)
				case "multicast":
					proto.SetExtension(opts, gorums.E_Multicast, false)
				case "quorumcall":
					proto.SetExtension(opts, gorums.E_Quorumcall, false)
				case "correctable":
					proto.SetExtension(opts, gorums.E_Correctable, false)
				case "async":
					proto.SetExtension(opts, gorums.E_Async, false)
				case "per_node_arg":
					proto.SetExtension(opts, gorums.E_PerNodeArg, false)
				}
				has = true
			}
			if has {
				md.Options = opts
			}
			sd.Method = append(sd.Method, md)
		}
		fd.Service = append(fd.Service, sd)
	}
	return fd
}

// WellKnownDeps returns the descriptors every request needs as dependencies:
// descriptor.proto, gorums.proto and google/protobuf/empty.proto.
func WellKnownDeps() []*descriptorpb.FileDescriptorProto {
	return []*descriptorpb.FileDescriptorProto{
		protodesc.ToFileDescriptorProto(descriptorpb.File_google_protobuf_descriptor_proto),
		protodesc.ToFileDescriptorProto(gorums.File_gorums_proto),
		protodesc.ToFileDescriptorProto(emptypb.File_google_protobuf_empty_proto),
	}
}

// Request assembles a CodeGeneratorRequest that generates the given files
// (the last len(generate) entries of files are usually the ones to generate).
func Request(param string, files []*descriptorpb.FileDescriptorProto, generate ...string) *pluginpb.CodeGeneratorRequest {
	req := &pluginpb.CodeGeneratorRequest{
		FileToGenerate: generate,
		ProtoFile:      files,
		CompilerVersion: &pluginpb.Version{
			Major: proto.Int32(0), Minor: proto.Int32(0), Patch: proto.Int32(0),
		},
	}
	if param != "" {
		req.Parameter = proto.String(param)
	}
	return req
}

// Result is the outcome of one plugin run.
type Result struct {
	ExitCode int
	Stderr   string
	TimedOut bool
	Resp     *pluginpb.CodeGeneratorResponse // nil if stdout was not a response
	Elapsed  time.Duration
}

// Diagnosed reports whether the plugin refused the input with a diagnostic.
func (r Result) Diagnosed() bool {
	return r.ExitCode != 0 || (r.Resp != nil && r.Resp.Error != nil)
}

// RunPlugin runs the plugin binary on the request.
func RunPlugin(bin string, req *pluginpb.CodeGeneratorRequest, timeout time.Duration, dir string) (Result, error) {
	in, err := proto.Marshal(req)
	if err != nil {
		return Result{}, fmt.Errorf("marshal request: %w", err)
	}
	ctx, cancel := context.WithTimeout(context.Background(), timeout)
	defer cancel()
	cmd := exec.CommandContext(ctx, bin)
	cmd.Stdin = bytes.NewReader(in)
	cmd.Dir = dir
	var stdout, stderr bytes.Buffer
	cmd.Stdout, cmd.Stderr = &stdout, &stderr
	t0 := time.Now()
	err = cmd.Run()
	res := Result{Stderr: stderr.String(), Elapsed: time.Since(t0)}
	if ctx.Err() != nil {
		res.TimedOut = true
		res.ExitCode = -1
		return res, nil
	}
	if err != nil {
		if ee, ok := err.(*exec.ExitError); ok {
			res.ExitCode = ee.ExitCode()
		} else {
			return res, err
		}
	}
	var resp pluginpb.CodeGeneratorResponse
	if stdout.Len() > 0 || res.ExitCode == 0 {
		if err := proto.Unmarshal(stdout.Bytes(), &resp); err == nil {
			res.Resp = &resp
		}
	}
	return res, nil
}
