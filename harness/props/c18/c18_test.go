// C18 — completed calls leave no residue.
package c18

import (
	"fmt"
	"sort"
	"strings"
	"testing"
	"time"

	"github.com/relab/gorums"
	"pgregory.net/rapid"

	"verif/peng"
	"verif/scen"
	"verif/vt"
)

func gen(t *rapid.T) peng.Case {
	c := peng.GenProgram(t, peng.Bias{MinN: 1, MaxN: 4, MaxThreads: 4, MinOps: 10, MaxOps: 120, MaxMgrs: 1, Kinds: scen.AllKinds, Barriers: true,
		Cancel: true, MaxSleepUs: 1500, SlowQFUs: 500, StreamItems: 4, AwaitProb: 3, ErrorNodes: true, FullQuorum: true, ReleaseModes: []string{"", "early"}})
	c.Probe = true // the fence: an RPC to every node after everything has answered
	c.Jitter = peng.GenJitter(t)
	// a node that has been unreachable since it was registered: calls end by its error
	if c.N >= 2 && rapid.IntRange(0, 2).Draw(t, "downNode") == 0 {
		c.Down = []int{rapid.IntRange(0, c.N-1).Draw(t, "down")}
	}
	return c
}

type residue struct {
	routers    map[int]int
	goroutines []string
	detail     []string
	// grpc's client-side goroutines (connections the manager's nodes hold)
	grpcClient int
	grpcKinds  map[string]int
}

// grpcPerNode bounds grpc's client-side goroutines per node once everything has settled: a
// connected node holds one ClientConn (3 callback serializers) with one transport (reader,
// writer, possibly keepalive), an unreachable one a ClientConn and its reconnection loop.
const grpcPerNode = 8

func measure(r *peng.Result) residue {
	res := residue{routers: map[int]int{}}
	for _, client := range r.Clients {
		for s := 0; s < r.Cluster.N; s++ {
			if n := client.Node(s); n != nil {
				if k := gorums.VerifRouterCount(n.RawNode); k > 0 {
					res.routers[s] = k
					ids, streaming := gorums.VerifRouterIDs(n.RawNode)
					for i := range ids {
						res.detail = append(res.detail, fmt.Sprintf("server %d: message id %d (stream=%v)", s, ids[i], streaming[i]))
					}
				}
			}
		}
	}
	res.grpcKinds = map[string]int{}
	for _, g := range scen.Stacks() {
		if k := peng.ClientGoroutine(g); strings.HasPrefix(k, "grpc-client:") {
			res.grpcClient++
			res.grpcKinds[k]++
		}
		lf := g.LibFrame()
		if strings.HasPrefix(lf, "RawConfiguration.handleAsyncCall") || strings.HasPrefix(lf, "RawConfiguration.handleCorrectableCall") || strings.HasPrefix(lf, "(*channel).sendMsg.func") {
			res.goroutines = append(res.goroutines, lf+"@"+g.State)
		}
		cb := g.CreatedBy()
		if lf == "" && (strings.Contains(cb, "gorums.RawConfiguration.AsyncCall") || strings.Contains(cb, "gorums.RawConfiguration.CorrectableCall") || strings.Contains(cb, "gorums.(*channel).sendMsg")) {
			res.goroutines = append(res.goroutines, "created by "+cb+"@"+g.State)
		}
	}
	sort.Strings(res.goroutines)
	return res
}

func run(c peng.Case) vt.Verdict {
	var final residue
	var waited bool
	r := peng.Run(c, peng.Hooks{BeforeTeardown: func(r *peng.Result) {
		// every handler has returned?
		ok := r.Cluster.Log.WaitFor(scen.B, func(evs []scen.Event) bool {
			open := 0
			for _, e := range evs {
				switch e.Kind {
				case "enter":
					open++
				case "exit":
					open--
				}
			}
			return open <= 0
		})
		waited = ok
		deadline := time.Now().Add(scen.B)
		for {
			final = measure(r)
			if (len(final.routers) == 0 && len(final.goroutines) == 0 && final.grpcClient <= grpcPerNode*c.N) || time.Now().After(deadline) {
				return
			}
			time.Sleep(2 * time.Millisecond)
		}
	}})
	if r.SetupErr != "" {
		return vt.Verdict{OK: true, Inconclusive: true, Msg: r.SetupErr, Classes: []string{"setup-error"}}
	}
	// ways of ending, measured
	ends := map[string]bool{}
	retT := map[uint64]int{}
	for _, e := range r.Events {
		if e.Kind != "return" || e.Call >= 10000 {
			continue
		}
		retT[e.Token] = e.T
		switch {
		case e.Outcome == "value":
			ends["success"] = true
		case e.Outcome == "none":
			ends["one-way"] = true
		case e.IsInc:
			ends["incomplete"] = true
		case e.IsDead:
			ends["timeout"] = true
		case e.IsCanc:
			ends["cancelled"] = true
		default:
			ends["node-error"] = true
		}
	}
	for _, e := range r.Events {
		if (e.Kind == "exit" || e.Kind == "send") && e.Serial != 0 {
			if rt, ok := retT[e.Token]; ok && rt < e.T {
				ends["quorum-before-all-replies"] = true
			}
		}
	}
	for _, ci := range r.Calls {
		if len(ci.Targets) == 0 {
			ends["zero-targets"] = true
		}
		if scen.IsStream(ci.Kind) {
			ends["stream"] = true
		}
	}
	var classes []string
	for k := range ends {
		classes = append(classes, "end="+k)
	}
	sort.Strings(classes)
	classes = append(classes, fmt.Sprintf("calls>=%d", len(r.Calls)/20*20))
	if len(r.Hung) > 0 {
		// a call that never ended is C08/C09's subject; residue cannot be judged
		return vt.Verdict{OK: true, Inconclusive: true, Msg: "a call did not end: " + r.Hung[0], Classes: classes}
	}
	if !waited {
		return vt.Verdict{OK: true, Inconclusive: true, Msg: "handlers did not all return", Classes: classes}
	}
	for _, p := range r.Probes {
		if !p.OK {
			return vt.Verdict{OK: true, Inconclusive: true, Msg: "fence RPC failed", Classes: classes}
		}
	}
	if len(final.routers) > 0 {
		total := 0
		for _, k := range final.routers {
			total += k
		}
		return vt.Verdict{OK: false, Key: "C18/routing-entries-remain", History: r.Events, Classes: classes,
			Msg: fmt.Sprintf("%v after every call ended, every handler returned and a fence RPC per node completed, %d per-call routing entries remain (per server: %v) after %d calls: %s; calls in issue order: %s", scen.B, total, final.routers, len(r.Calls), strings.Join(final.detail, ", "), issueOrder(r))}
	}
	if len(final.goroutines) > 0 {
		k := final.goroutines[0]
		if i := strings.Index(k, "@"); i >= 0 {
			k = k[:i]
		}
		return vt.Verdict{OK: false, Key: "C18/call-goroutines-remain/" + k, History: r.Events, Classes: classes,
			Msg: fmt.Sprintf("%v after every call ended, %d per-call goroutine(s) remain: %s", scen.B, len(final.goroutines), strings.Join(final.goroutines, "; "))}
	}
	if final.grpcClient > grpcPerNode*c.N {
		var kinds []string
		for k, n := range final.grpcKinds {
			kinds = append(kinds, fmt.Sprintf("%dx %s", n, k))
		}
		sort.Strings(kinds)
		return vt.Verdict{OK: false, Key: "C18/connections-pile-up", History: r.Events, Classes: classes,
			Msg: fmt.Sprintf("%v after every call ended the manager's %d nodes hold %d client-side grpc goroutines (a node needs at most %d): connections were created per call and never closed: %s", scen.B, c.N, final.grpcClient, grpcPerNode, strings.Join(kinds, "; "))}
	}
	if len(c.Down) > 0 {
		classes = append(classes, "node-never-reachable")
	}
	res := vt.Pass(len(ends) >= 3, classes...)
	res.Inconclusive = r.Late
	return res
}

func TestProp(t *testing.T) {
	vt.Main(t, vt.Spec[peng.Case]{
		ID:           "C18",
		Rule:         "rapid-generated sequences of 10-120 calls of all 20 kinds from 1-4 threads, each ending in a generated way (quorum before all replies, exhaustion, cancellation/deadline before or after the send, node error, correctable done, stream abandoned, zero targets, future never read), in half of the cases with seeded jitter at the statement-level yield points of the instrumented runtime; in a third of the cases one node unreachable since it was registered; after the sequence every handler has returned (all gates open), every call has ended and a fence RPC to every node has completed; then, polling up to the hang bound, the number of routing entries of every node (read-only accessor injected at build time) must be 0 and no goroutine may sit in a per-call frame (async handler, correctable handler, send watcher); non-trivial (measured) = at least 3 distinct ways of ending in the sequence",
		Gen:          gen,
		Run:          run,
		TrackCurrent: true,
	})
}

// issueOrder lists the calls in the order they were issued (message ids are
// assigned in roughly that order, starting at 1).
func issueOrder(r peng.Result) string {
	var parts []string
	i := 0
	for _, e := range r.Events {
		if e.Kind == "issue" {
			i++
			parts = append(parts, fmt.Sprintf("%d:%s(call %d)", i, e.Method, e.Call))
		}
	}
	return strings.Join(parts, " ")
}
