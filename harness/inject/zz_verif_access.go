package gorums

// This file is NOT part of relab/gorums. It is added to the package at build
// time by the verification harness through `go build -overlay` (see
// /verif/DESIGN.md section 2.3). It only adds read-only accessors and
// constructors for otherwise unexported things; it changes no behaviour.

// VerifRouterCount returns the number of per-call routing entries the node's
// channel currently holds.
func VerifRouterCount(n *RawNode) int {
	if n == nil || n.channel == nil {
		return 0
	}
	n.channel.responseMut.Lock()
	defer n.channel.responseMut.Unlock()
	return len(n.channel.responseRouters)
}

// VerifNewMessage returns an empty message ready for unmarshalling a request
// (response=false) or a response (response=true), as the server and the
// client channel create them.
func VerifNewMessage(response bool) *Message {
	if response {
		return newMessage(responseType)
	}
	return newMessage(requestType)
}

// VerifBareNode returns an unconnected node with the given id and address
// whose LastErr() reports lastErr.
func VerifBareNode(id uint32, addr string, lastErr error) *RawNode {
	return &RawNode{id: id, addr: addr, channel: &channel{lastError: lastErr}}
}
