// C03 — per-node FIFO across all call types.
package c03

import (
	"fmt"
	"testing"

	"pgregory.net/rapid"

	"verif/peng"
	"verif/scen"
	"verif/vt"
)

func gen(t *rapid.T) peng.Case {
	c := peng.GenProgram(t, peng.Bias{MinN: 1, MaxN: 5, MaxThreads: 4, MinOps: 5, MaxOps: 40, MaxMgrs: 1, Kinds: scen.AllKinds, Barriers: true,
		MaxSleepUs: 3000, HoldNoRelUs: 12000, StreamItems: 2, AwaitProb: 4, ReleaseModes: []string{"", "", "early"}})
	c.Drain = true
	if rapid.IntRange(0, 3).Draw(t, "failSend") == 0 {
		// one stream write fails under a call whose context is alive; the requests queued behind it
		// and the calls issued later go over the re-created stream, in order
		c.Mgrs[0].FailSendAt = []int{rapid.IntRange(1, 60).Draw(t, "failSendAt")}
	}
	if len(c.Mgrs[0].FailSendAt) == 0 && rapid.IntRange(0, 3).Draw(t, "cut") == 0 {
		// the connections to a server break underneath it once or twice (it keeps listening): what was
		// in flight is lost, nothing is handled twice, and what is handled keeps its order
		k := rapid.IntRange(1, 2).Draw(t, "ncut")
		for i := 0; i < k; i++ {
			op := peng.Op{Kind: "cut", Thread: rapid.IntRange(0, c.Threads-1).Draw(t, fmt.Sprintf("cutThread%d", i)),
				Call: scen.CallSpec{Node: rapid.IntRange(0, c.N-1).Draw(t, fmt.Sprintf("cutNode%d", i))}}
			at := rapid.IntRange(0, len(c.Ops)).Draw(t, fmt.Sprintf("cutAt%d", i))
			c.Ops = append(c.Ops[:at], append([]peng.Op{op}, c.Ops[at:]...)...)
		}
	}
	return c
}

func run(c peng.Case) vt.Verdict {
	r := peng.Run(c, peng.Hooks{})
	if r.SetupErr != "" {
		return vt.Verdict{OK: true, Inconclusive: true, Msg: r.SetupErr, Classes: []string{"setup-error"}}
	}
	v, classes, nontrivial := peng.CheckC03(c, r)
	if v != nil {
		return vt.Verdict{OK: false, Key: v.Key, Msg: v.Msg, History: r.Events, Classes: classes}
	}
	res := vt.Pass(nontrivial, classes...)
	res.Inconclusive = r.Late
	return res
}

func TestProp(t *testing.T) {
	vt.Main(t, vt.Spec[peng.Case]{
		ID:           "C03",
		Rule:         "rapid-generated client programs: 5-40 operations drawn from all 20 call kinds (RPC, quorum/async/correctable/stream calls on sub-configurations, multicast and unicast with and without send-waiting, per-node variants that skip nodes) issued by 1-4 threads separated by barriers, quorum sizes below the configuration size (stragglers stay queued), futures collected late or never, send buffer 0/1/2/8, receive buffer 0/4, per (server, call) handler latency 0-3 ms or a hold of 1-12 ms without Release, in a third of the behaviours a handler that calls Release at once and keeps running for its latency (and releases again when it returns), no cancellation, and no failure except, in a quarter of the programs, one injected failure of a single stream write (client stream interceptor) or one or two cuts of the connections to a server that keeps listening (the complete-delivery clause is then not applied); oracle: per server and connection the handler start order never inverts the program's happens-before order (thread order + barriers), no handler starts twice, every targeted server handles every call; non-trivial = at least 3 call kinds, or a straggler still pending when a later call was issued (measured), or a send buffer > 0",
		Gen:          gen,
		Run:          run,
		TrackCurrent: true,
	})
}
