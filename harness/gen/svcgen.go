package gen

// Service-definition generator for C16/C17 (DESIGN.md 3.6, C16).
//
// A Def is one proto file with 0-2 services (plus, optionally, a second user
// file whose messages it imports). GenDef draws a Def from rapid; the label
// (legal / illegal / unspecified) is NOT recorded by the generator but
// computed from the definition by Analyze (svclabel.go), so that a replayed or
// shrunk definition is always judged by what it is, not by how it was drawn.

import (
	"fmt"
	"strings"

	"pgregory.net/rapid"
)

// Def is one generated service definition.
type Def struct {
	File File `json:"file"`
	// Dep is an optional second user file (another Go package) whose messages
	// File imports.
	Dep *File `json:"dep,omitempty"`
	// Param is the plugin parameter: "", "paths=source_relative" or "dev=true".
	Param string `json:"param,omitempty"`
	// DepBase, if set, is the last element of the Go import path of the imported user
	// package (e.g. "encoding": the name of a package the generated code imports itself).
	DepBase string `json:"dep_base,omitempty"`
}

// DepDir is the directory (below the scratch module) and import path suffix of the imported
// user package of a definition generated into package pkg.
func DepDir(pkg string, d Def) string {
	if d.DepBase != "" {
		return pkg + "dep/" + d.DepBase
	}
	return pkg + "dep"
}

// EmptyType is the fully qualified name of google.protobuf.Empty.
const (
	EmptyType   = ".google.protobuf.Empty"
	EmptyImport = "google/protobuf/empty.proto"
)

// stdFields are the fields every generated message carries (C17 part 2 needs
// a string and a number to stamp requests and replies).
func stdFields() []Field {
	return []Field{{Name: "stamp", Number: 1, Type: tStr}, {Name: "num", Number: 2, Type: tU64}}
}

// ---------------------------------------------------------------- name pools

// Ordinary names. Every entry is "ordinary" by the predicate of svclabel.go
// (checked by TestPools in props/c16) and the Go names (GoCamelCase) inside one
// pool are pairwise distinct.
var (
	ordTypeNames = []string{
		"Request", "Response", "State", "ReadReq", "WriteResp", "msg", "reply_2", "KV",
		"Value_T", "M1", "my_request", "ACK", "x", "Item9", "kvPair", "Echo_msg", "T9", "blob",
	}
	ordServiceNames = []string{"Storage", "Registry2", "kvStore", "Echo_svc", "S", "my_service", "QSvc", "pingPong"}
	ordMethodNames  = []string{
		"Read", "Write", "Get", "put", "ReadAll", "write_one", "m1", "M2", "Do_It", "lookup",
		"Ping", "x", "QC", "list_keys_2", "Commit", "abort", "ReadAsync", "Put2Nodes",
		// names zorums.proto itself uses although the runtime has methods of
		// the same name on the embedded types (documented shapes)
		"QuorumCall", "Multicast", "Unicast", "Correctable", "CorrectableStream", "GRPCCall",
	}
	ordPackages    = []string{"svc", "storage", "a.b.c", "kv_store", "My.Pkg2", "x"}
	ordDepPackages = []string{"depkg", "common.types", "shared_v1"}
	ordFileNames   = []string{"svc.proto", "store/kv.proto", "x1.proto", "My_Svc.proto"}
)

// Hostile pools.
var (
	// Go keywords and predeclared identifiers (proto identifiers are
	// camel-cased by the generators, so most of these end up harmless; that is
	// for the plugin to get right, not for the generator to assume).
	keywordNames = []string{
		"type", "func", "range", "select", "go", "string", "error", "nil", "len", "init", "main",
		"new", "make", "interface", "map", "chan", "var", "import", "package", "default", "return",
		"int", "true", "any", "bool", "byte", "struct", "_", "_x", "String", "Error",
	}
	// names the static code, the embedded runtime types or the templates use
	staticMethodNames = []string{
		"Nodes", "Size", "NodeIDs", "And", "Except", "Equal", "WithNewNodes", "WithoutNodes",
		"Close", "ID", "Address", "Host", "Port", "FullString", "LastErr", "Latency",
		"RPCCall", "AsyncCall", "CorrectableCall", "RawConfiguration", "RawNode", "RawManager",
		"Configuration", "Manager", "Node", "QuorumSpec", "NewManager", "NewConfiguration",
		"ConfigurationFromRaw", "nodes", "size", "node_ids", "qspec", "Release", "Done", "Watch",
	}
	staticTypeNames = []string{
		"ConfigurationFromRaw", "NewManager", "NewConfiguration", "RawConfiguration", "RawNode", "RawManager",
		"configuration", "manager", "node", "quorumSpec", "quorum_spec", "Nodes", "Size", "Server",
		"gorums", "fmt", "encoding", "context", "proto", "Empty",
	}
	reservedTypeNames = []string{"Configuration", "Manager", "Node", "QuorumSpec"}
	// prefixes/suffixes of identifiers the templates derive from other names
	derivedTypePrefixes = []string{"Async", "Correctable", "CorrectableStream", "internal", "Internal", "Register"}
	hostilePackages     = []string{"", "type", "gorums", "Nodes", "google.protobuf", "func.var", "_"}
)

// depBases are last elements of Go import paths that the generated code uses itself.
var depBases = []string{"encoding", "fmt", "gorums", "context", "grpc", "proto", "protoimpl", "codes", "status", "ordering", "sync", "time", "emptypb"}

// methodComments are leading comments of rpcs.
var methodComments = []string{
	" Read returns the value.\n",
	" two lines\n second line\n",
	" ends with */ and opens /* again\n",
	" a `backtick`, \"quotes\", a \\ backslash and a tab\there\n",
	" {{.Method.GoName}} {{end}} {{template \"x\"}}\n",
	" unicode ☃ ünïcödé\n",
	"go:build ignore\n",
	" +build ignore\n\n package evil\n",
	"no leading space",
	"\n\n",
}

// GoCamelCase is protobuf-go's internal/strs.GoCamelCase (how protoc-gen-go
// and protogen derive Go identifiers from proto names).
func GoCamelCase(s string) string {
	lower := func(c byte) bool { return 'a' <= c && c <= 'z' }
	digit := func(c byte) bool { return '0' <= c && c <= '9' }
	var b []byte
	for i := 0; i < len(s); i++ {
		c := s[i]
		switch {
		case c == '.' && i+1 < len(s) && lower(s[i+1]):
		case c == '.':
			b = append(b, '_')
		case c == '_' && (i == 0 || s[i-1] == '.'):
			b = append(b, 'X')
		case c == '_' && i+1 < len(s) && lower(s[i+1]):
		case digit(c):
			b = append(b, c)
		default:
			if lower(c) {
				c -= 'a' - 'A'
			}
			b = append(b, c)
			for ; i+1 < len(s) && lower(s[i+1]); i++ {
				b = append(b, s[i+1])
			}
		}
	}
	return string(b)
}

// ---------------------------------------------------------------- generator

// GenOpts steers GenDef.
type GenOpts struct {
	// LegalOnly draws documented-legal definitions only (C17 part 2).
	LegalOnly bool
	// MaxMethods bounds the number of methods (default 12).
	MaxMethods int
	// NoDev never draws the dev=true parameter.
	NoDev bool
}

// call types in a fixed order
var callTypeNames = []string{"rpc", "unicast", "multicast", "quorumcall", "correctable"}

func setCallType(m *Method, ct string) {
	switch ct {
	case "rpcopt":
		m.RPC = true
	case "unicast":
		m.Unicast = true
	case "multicast":
		m.Multicast = true
	case "quorumcall":
		m.Quorumcall = true
	case "correctable":
		m.Correctable = true
	}
}

// pickDistinct picks n names from pool by drawn start indices with linear
// probing, so that the Go names are pairwise distinct and none is in used.
func pickDistinct(t *rapid.T, pool []string, n int, used map[string]bool, label string) []string {
	var out []string
	for i := 0; i < n; i++ {
		k := rapid.IntRange(0, len(pool)-1).Draw(t, fmt.Sprintf("%s%d", label, i))
		for j := 0; j < len(pool); j++ {
			c := pool[(k+j)%len(pool)]
			if !used[GoCamelCase(c)] {
				used[GoCamelCase(c)] = true
				out = append(out, c)
				break
			}
		}
	}
	return out
}

func chance(t *rapid.T, percent int, label string) bool {
	return rapid.IntRange(0, 99).Draw(t, label) >= 100-percent
}

type typeRef struct {
	ref  string // as used in Method.In/Out
	pkg  int    // 0 local, 1 empty, 2 dep
	name string // bare message name
}

// GenDef draws one service definition.
func GenDef(t *rapid.T, o GenOpts) Def {
	maxM := o.MaxMethods
	if maxM <= 0 {
		maxM = 12
	}
	// mode 0: every part documented-legal; 1: legal with exactly one
	// corruption; 2: wild (every part may be corrupted)
	mode := 0
	if !o.LegalOnly {
		mode = rapid.SampledFrom([]int{0, 0, 0, 1, 1, 1, 2, 2}).Draw(t, "mode")
	}

	d := Def{}
	f := &d.File
	f.Name = rapid.SampledFrom(ordFileNames).Draw(t, "file")
	f.Package = rapid.SampledFrom(ordPackages).Draw(t, "package")

	usedTypes := map[string]bool{} // Go names of messages and services of the file
	nMsg := rapid.IntRange(1, 5).Draw(t, "nmsg")
	msgNames := pickDistinct(t, ordTypeNames, nMsg, usedTypes, "msg")
	for _, n := range msgNames {
		f.Messages = append(f.Messages, Message{Name: n, Fields: stdFields()})
	}
	types := []typeRef{}
	for _, n := range msgNames {
		types = append(types, typeRef{ref: n, pkg: 0, name: n})
	}
	if chance(t, 40, "useEmpty") {
		f.Imports = append(f.Imports, EmptyImport)
		types = append(types, typeRef{ref: EmptyType, pkg: 1, name: "Empty"})
	}
	if chance(t, 30, "useDep") {
		dep := &File{Name: "dep/" + rapid.SampledFrom([]string{"types.proto", "msgs.proto"}).Draw(t, "depfile")}
		dep.Package = rapid.SampledFrom(ordDepPackages).Draw(t, "deppkg")
		nd := rapid.IntRange(1, 3).Draw(t, "ndep")
		var depNames []string
		if chance(t, 35, "depSameNames") {
			// same base names as local messages: the templates key their data
			// types by base name only
			for i := 0; i < nd && i < len(msgNames); i++ {
				depNames = append(depNames, msgNames[i])
			}
		} else {
			depNames = pickDistinct(t, ordTypeNames, nd, map[string]bool{}, "depmsg")
		}
		for _, n := range depNames {
			dep.Messages = append(dep.Messages, Message{Name: n, Fields: stdFields()})
			types = append(types, typeRef{ref: "." + dep.Package + "." + n, pkg: 2, name: n})
		}
		d.Dep = dep
		f.Imports = append(f.Imports, dep.Name)
	}

	// services
	nSvc := 1
	noMethods := false
	if mode > 0 && chance(t, 6, "noMethods") {
		noMethods = true
		nSvc = rapid.IntRange(0, 1).Draw(t, "emptySvc")
	}
	svcNames := pickDistinct(t, ordServiceNames, nSvc, usedTypes, "svc")
	for _, n := range svcNames {
		f.Services = append(f.Services, Service{Name: n})
	}
	if !noMethods {
		nMeth := rapid.IntRange(1, maxM).Draw(t, "nmeth")
		names := pickDistinct(t, ordMethodNames, nMeth, map[string]bool{}, "meth")
		for i, n := range names {
			m := genLegalMethod(t, n, types, fmt.Sprintf("m%d.", i))
			f.Services[0].Methods = append(f.Services[0].Methods, m)
		}
	}

	// twins: the same promise kind over two message types that share their
	// base name (file-local X and imported X); the templates derive the promise
	// type's name from the base name alone
	if d.Dep != nil && !noMethods {
		var shared []string
		for _, dm := range d.Dep.Messages {
			for _, lm := range f.Messages {
				if dm.Name == lm.Name {
					shared = append(shared, dm.Name)
				}
			}
		}
		if len(shared) > 0 && chance(t, 60, "twins") {
			x := shared[rapid.IntRange(0, len(shared)-1).Draw(t, "twinType")]
			kind := rapid.SampledFrom([]string{"async", "correctable", "correctablestream", "quorumcall"}).Draw(t, "twinKind")
			names := pickDistinct(t, ordMethodNames, 2, goMethodNames(f.Services[0]), "twinMeth")
			if len(names) == 2 {
				for i, out := range []string{x, "." + d.Dep.Package + "." + x} {
					m := Method{Name: names[i], In: types[0].ref, Out: out}
					switch kind {
					case "async":
						m.Quorumcall, m.Async = true, true
					case "correctable":
						m.Correctable = true
					case "correctablestream":
						m.Correctable, m.ServerStream = true, true
					default:
						m.Quorumcall = true
					}
					f.Services[0].Methods = append(f.Services[0].Methods, m)
				}
			}
		}
	}

	// corruptions
	switch mode {
	case 1:
		corrupt(t, &d, types, usedTypes, "c0.")
	case 2:
		n := rapid.IntRange(1, 5).Draw(t, "ncorrupt")
		for i := 0; i < n; i++ {
			corrupt(t, &d, types, usedTypes, fmt.Sprintf("c%d.", i))
		}
	}

	// plugin parameter
	switch p := rapid.IntRange(0, 9).Draw(t, "param"); {
	case p >= 9 && !o.NoDev && mode == 0 && len(f.Services) == 1:
		// dev mode is only defined for zorums-like definitions: every call type present
		d.Param = "dev=true"
		for i, k := range MissingKinds(d) {
			names := pickDistinct(t, ordMethodNames, 1, goMethodNames(f.Services[0]), fmt.Sprintf("devmeth%d", i))
			if len(names) == 0 {
				d.Param = ""
				break
			}
			m := Method{Name: names[0], In: types[0].ref, Out: types[0].ref}
			switch k {
			case "async":
				m.Quorumcall, m.Async = true, true
			case "correctablestream":
				m.Correctable, m.ServerStream = true, true
			default:
				setCallType(&m, k)
			}
			f.Services[0].Methods = append(f.Services[0].Methods, m)
		}
	case p >= 5:
		d.Param = "paths=source_relative"
	}
	// the imported user package often is called like a package the generated code imports itself
	if d.Dep != nil && !o.LegalOnly && d.DepBase == "" && rapid.IntRange(0, 2).Draw(t, "depBaseHostile") == 0 {
		d.DepBase = rapid.SampledFrom(depBases).Draw(t, "depBase")
	}
	// leading comments of rpcs (copied into the generated stubs): ordinary and awkward texts
	for si := range d.File.Services {
		for mi := range d.File.Services[si].Methods {
			if rapid.IntRange(0, 5).Draw(t, fmt.Sprintf("comment%d_%d", si, mi)) == 0 {
				d.File.Services[si].Methods[mi].Comment = rapid.SampledFrom(methodComments).Draw(t, fmt.Sprintf("commentText%d_%d", si, mi))
			}
		}
	}
	return d
}

func goMethodNames(s Service) map[string]bool {
	used := map[string]bool{}
	for _, m := range s.Methods {
		used[GoCamelCase(m.Name)] = true
	}
	return used
}

// genLegalMethod draws one row of the documented option matrix.
func genLegalMethod(t *rapid.T, name string, types []typeRef, lbl string) Method {
	m := Method{Name: name}
	ct := rapid.SampledFrom([]string{"quorumcall", "quorumcall", "quorumcall", "correctable", "correctable", "multicast", "multicast", "rpc", "unicast"}).Draw(t, lbl+"calltype")
	setCallType(&m, ct)
	in := types[rapid.IntRange(0, len(types)-1).Draw(t, lbl+"in")]
	out := types[rapid.IntRange(0, len(types)-1).Draw(t, lbl+"out")]
	m.In, m.Out = in.ref, out.ref
	switch ct {
	case "quorumcall":
		m.Async = chance(t, 35, lbl+"async")
		m.PerNodeArg = chance(t, 30, lbl+"pernode")
		if chance(t, 30, lbl+"custom") {
			m.CustomReturn = pickCustom(t, out, types, lbl)
		}
	case "correctable":
		m.ServerStream = chance(t, 40, lbl+"stream")
		m.PerNodeArg = chance(t, 30, lbl+"pernode")
		if chance(t, 30, lbl+"custom") {
			m.CustomReturn = pickCustom(t, out, types, lbl)
		}
	case "multicast":
		m.PerNodeArg = chance(t, 30, lbl+"pernode")
	case "rpc":
		// the rpc call type is implied by the absence of options; it may also be declared
		m.RPC = chance(t, 50, lbl+"rpcDeclared")
	}
	if ct == "multicast" || ct == "unicast" {
		// one-way methods never use their response type in the generated code; request and
		// response imported from two different packages is the shape in which a
		// forgotten import reference shows
		var imported []typeRef
		for _, ty := range types {
			if ty.pkg != 0 {
				imported = append(imported, ty)
			}
		}
		if len(imported) >= 2 && chance(t, 40, lbl+"importedInOut") {
			a := imported[rapid.IntRange(0, len(imported)-1).Draw(t, lbl+"impIn")]
			var others []typeRef
			for _, ty := range imported {
				if ty.pkg != a.pkg {
					others = append(others, ty)
				}
			}
			if len(others) > 0 {
				b := others[rapid.IntRange(0, len(others)-1).Draw(t, lbl+"impOut")]
				m.In, m.Out = a.ref, b.ref
			}
		}
	}
	return m
}

// pickCustom picks a custom return type: another message of the package the
// output type lives in ("" if there is none).
func pickCustom(t *rapid.T, out typeRef, types []typeRef, lbl string) string {
	var cands []string
	for _, ty := range types {
		if ty.pkg == out.pkg && ty.name != out.name {
			// the option names a Go type of the output type's package
			cands = append(cands, GoCamelCase(ty.name))
		}
	}
	if len(cands) == 0 {
		return ""
	}
	return cands[rapid.IntRange(0, len(cands)-1).Draw(t, lbl+"customType")]
}

// corrupt applies one corruption to the definition. A corruption that would
// make the descriptor invalid (duplicate proto names) is skipped.
func corrupt(t *rapid.T, d *Def, _ []typeRef, usedTypes map[string]bool, lbl string) {
	f := &d.File
	types := typesOf(d) // earlier corruptions may have renamed messages
	var meths []*Method
	for si := range f.Services {
		for mi := range f.Services[si].Methods {
			meths = append(meths, &f.Services[si].Methods[mi])
		}
	}
	kinds := []string{"calltypes", "calltypes", "option", "option", "stream", "streamopt", "streamopt", "custom", "rpcopt", "falseopt", "depbase",
		"methname", "methname", "msgname", "msgname", "svcname", "package", "svc2"}
	kind := rapid.SampledFrom(kinds).Draw(t, lbl+"kind")
	var m *Method
	if len(meths) > 0 {
		m = meths[rapid.IntRange(0, len(meths)-1).Draw(t, lbl+"target")]
	}
	switch kind {
	case "calltypes":
		if m == nil {
			return
		}
		n := rapid.IntRange(1, 2).Draw(t, lbl+"extra")
		for i := 0; i < n; i++ {
			setCallType(m, rapid.SampledFrom([]string{"quorumcall", "multicast", "correctable", "unicast", "rpcopt"}).Draw(t, fmt.Sprintf("%sct%d", lbl, i)))
		}
	case "option":
		if m == nil {
			return
		}
		switch rapid.SampledFrom([]string{"async", "pernode", "custom"}).Draw(t, lbl+"opt") {
		case "async":
			m.Async = true
		case "pernode":
			m.PerNodeArg = true
		case "custom":
			// a Go type of the output type's package (another message if there is one)
			for _, ty := range types {
				if ty.ref == m.Out {
					m.CustomReturn = pickCustom(t, ty, types, lbl)
					if m.CustomReturn == "" && ty.pkg != 1 {
						m.CustomReturn = GoCamelCase(ty.name)
					}
				}
			}
		}
	case "depbase":
		// the imported user package is called like a package the generated code imports itself
		if d.Dep == nil {
			return
		}
		d.DepBase = rapid.SampledFrom(depBases).Draw(t, lbl+"depBase")
	case "falseopt":
		// one or two boolean options that are not set are written out as "= false"
		if m == nil {
			return
		}
		set := map[string]bool{"rpc": m.RPC, "unicast": m.Unicast, "multicast": m.Multicast, "quorumcall": m.Quorumcall,
			"correctable": m.Correctable, "async": m.Async, "per_node_arg": m.PerNodeArg}
		n := rapid.IntRange(1, 2).Draw(t, lbl+"nFalse")
		for i := 0; i < n; i++ {
			o := rapid.SampledFrom([]string{"async", "per_node_arg", "async", "per_node_arg", "quorumcall", "multicast", "correctable", "unicast", "rpc"}).Draw(t, fmt.Sprintf("%sfalse%d", lbl, i))
			if !set[o] {
				set[o] = true
				m.False = append(m.False, o)
			}
		}
	case "stream":
		if m == nil {
			return
		}
		switch rapid.IntRange(0, 2).Draw(t, lbl+"streamKind") {
		case 0:
			m.ClientStream = true
		case 1:
			m.ServerStream = true
		default:
			m.ClientStream, m.ServerStream = true, true
		}
	case "streamopt":
		// every stream direction with every call type (the documented rules: client streams only for
		// multicast, server streams only for correctable), sometimes with a further option
		if m == nil {
			return
		}
		m.ClientStream, m.ServerStream = false, false
		switch rapid.IntRange(0, 2).Draw(t, lbl+"streamKind") {
		case 0:
			m.ClientStream = true
		case 1:
			m.ServerStream = true
		default:
			m.ClientStream, m.ServerStream = true, true
		}
		m.RPC, m.Unicast, m.Multicast, m.Quorumcall, m.Correctable = false, false, false, false, false
		if ct := rapid.SampledFrom([]string{"multicast", "multicast", "correctable", "quorumcall", "unicast", "rpcopt", ""}).Draw(t, lbl+"streamCT"); ct != "" {
			setCallType(m, ct)
		}
		switch rapid.IntRange(0, 5).Draw(t, lbl+"streamOpt") {
		case 0:
			m.PerNodeArg = true
		case 1:
			m.Async = true
		}
	case "custom":
		// a custom return type next to an imported or identical output type
		if m == nil || len(f.Messages) == 0 {
			return
		}
		if !m.Quorumcall && !m.Correctable {
			m.Quorumcall = true
		}
		cm := f.Messages[rapid.IntRange(0, len(f.Messages)-1).Draw(t, lbl+"customMsg")].Name
		m.CustomReturn = GoCamelCase(cm)
		if hasEmpty(types) && chance(t, 70, lbl+"importedOut") {
			// the plugin resolves the custom type in the output type's package;
			// nobody can add types to emptypb
			m.Out = EmptyType
		} else {
			m.Out = cm
		}
	case "rpcopt":
		if m != nil {
			m.RPC = true
		}
	case "methname":
		if m == nil {
			return
		}
		var name string
		switch rapid.IntRange(0, 3).Draw(t, lbl+"pool") {
		case 0:
			name = rapid.SampledFrom(keywordNames).Draw(t, lbl+"name")
		case 1, 2:
			name = rapid.SampledFrom(staticMethodNames).Draw(t, lbl+"name")
		default:
			// derived from another method: same Go name, or its quorum function
			other := meths[rapid.IntRange(0, len(meths)-1).Draw(t, lbl+"other")]
			if rapid.Bool().Draw(t, lbl+"qf") {
				name = other.Name + "QF"
			} else {
				name = altSpelling(other.Name)
			}
		}
		for _, o := range meths {
			if o.Name == name {
				return
			}
		}
		m.Name = name
	case "msgname":
		if len(f.Messages) == 0 {
			return
		}
		mi := rapid.IntRange(0, len(f.Messages)-1).Draw(t, lbl+"msg")
		var name string
		switch rapid.IntRange(0, 4).Draw(t, lbl+"pool") {
		case 0:
			name = rapid.SampledFrom(keywordNames).Draw(t, lbl+"name")
		case 1:
			name = rapid.SampledFrom(staticTypeNames).Draw(t, lbl+"name")
		case 2:
			name = rapid.SampledFrom(reservedTypeNames).Draw(t, lbl+"name")
		default:
			// derived from another type name: a data type the templates emit,
			// the server interface, or the register function
			prefix := rapid.SampledFrom(derivedTypePrefixes).Draw(t, lbl+"prefix")
			base := derivedBase(t, d, prefix, lbl)
			if prefix == "Register" {
				name = "Register" + base + "Server"
			} else {
				name = prefix + base
			}
		}
		renameMessage(d, mi, name)
	case "svcname":
		if len(f.Services) == 0 {
			return
		}
		si := rapid.IntRange(0, len(f.Services)-1).Draw(t, lbl+"svc")
		var name string
		switch rapid.IntRange(0, 2).Draw(t, lbl+"pool") {
		case 0:
			name = rapid.SampledFrom(keywordNames).Draw(t, lbl+"name")
		case 1:
			name = rapid.SampledFrom(append(append([]string{}, reservedTypeNames...), staticTypeNames...)).Draw(t, lbl+"name")
		default:
			if len(f.Messages) == 0 {
				return
			}
			name = altSpelling(f.Messages[rapid.IntRange(0, len(f.Messages)-1).Draw(t, lbl+"other")].Name)
		}
		if protoNameTaken(d, name) {
			return
		}
		f.Services[si].Name = name
	case "package":
		p := rapid.SampledFrom(hostilePackages).Draw(t, lbl+"name")
		if d.Dep != nil && d.Dep.Package == p {
			return
		}
		f.Package = p
	case "svc2":
		// a second service, usually with methods of its own
		names := pickDistinct(t, ordServiceNames, 1, usedTypes, lbl+"svc2")
		if len(names) == 0 || protoNameTaken(d, names[0]) {
			return
		}
		s := Service{Name: names[0]}
		if chance(t, 80, lbl+"svc2methods") {
			n := rapid.IntRange(1, 3).Draw(t, lbl+"n")
			mn := pickDistinct(t, ordMethodNames, n, map[string]bool{}, lbl+"meth")
			for i, name := range mn {
				s.Methods = append(s.Methods, genLegalMethod(t, name, types, fmt.Sprintf("%sm%d.", lbl, i)))
			}
		}
		f.Services = append(f.Services, s)
	}
}

// typesOf lists the message types a method of the definition may use.
func typesOf(d *Def) []typeRef {
	var types []typeRef
	for _, m := range d.File.Messages {
		types = append(types, typeRef{ref: m.Name, pkg: 0, name: m.Name})
	}
	for _, imp := range d.File.Imports {
		if imp == EmptyImport {
			types = append(types, typeRef{ref: EmptyType, pkg: 1, name: "Empty"})
		}
	}
	if d.Dep != nil {
		for _, m := range d.Dep.Messages {
			types = append(types, typeRef{ref: "." + d.Dep.Package + "." + m.Name, pkg: 2, name: m.Name})
		}
	}
	return types
}

func hasEmpty(types []typeRef) bool {
	for _, ty := range types {
		if ty.pkg == 1 {
			return true
		}
	}
	return false
}

// altSpelling returns a different proto identifier with the same Go name
// (or, failing that, the name with the case of the first letter flipped).
func altSpelling(n string) string {
	if n == "" {
		return "x"
	}
	c := n[0]
	switch {
	case 'a' <= c && c <= 'z':
		return string(c-'a'+'A') + n[1:]
	case 'A' <= c && c <= 'Z':
		return string(c-'A'+'a') + n[1:]
	}
	return n + "_"
}

// derivedBase picks the Go name the derived identifier is built from: for the
// data type prefixes preferably the output (or custom) type of a method whose
// call type produces that data type.
func derivedBase(t *rapid.T, d *Def, prefix string, lbl string) string {
	f := &d.File
	var cands []string
	for _, s := range f.Services {
		for _, m := range s.Methods {
			out := m.Out
			if m.CustomReturn != "" {
				out = m.CustomReturn
			}
			base := GoCamelCase(out[strings.LastIndex(out, ".")+1:])
			switch prefix {
			case "Async":
				if m.Async {
					cands = append(cands, base)
				}
			case "Correctable":
				if m.Correctable && !m.ServerStream {
					cands = append(cands, base)
				}
			case "CorrectableStream":
				if m.Correctable && m.ServerStream {
					cands = append(cands, base)
				}
			case "internal", "Internal":
				if m.Quorumcall || m.Correctable {
					cands = append(cands, GoCamelCase(m.Out[strings.LastIndex(m.Out, ".")+1:]))
				}
			}
		}
		if prefix == "Register" {
			cands = append(cands, GoCamelCase(s.Name))
		}
	}
	if len(cands) == 0 || chance(t, 20, lbl+"anyBase") {
		for _, m := range f.Messages {
			cands = append(cands, GoCamelCase(m.Name))
		}
	}
	if len(cands) == 0 {
		return "X"
	}
	return cands[rapid.IntRange(0, len(cands)-1).Draw(t, lbl+"base")]
}

func protoNameTaken(d *Def, name string) bool {
	for _, m := range d.File.Messages {
		if m.Name == name {
			return true
		}
	}
	for _, s := range d.File.Services {
		if s.Name == name {
			return true
		}
	}
	if d.Dep != nil && d.Dep.Package == d.File.Package {
		for _, m := range d.Dep.Messages {
			if m.Name == name {
				return true
			}
		}
	}
	return false
}

// renameMessage renames message mi of the main file and every reference to it
// (no-op if the proto name is already taken).
func renameMessage(d *Def, mi int, name string) bool {
	if protoNameTaken(d, name) {
		return false
	}
	old := d.File.Messages[mi].Name
	d.File.Messages[mi].Name = name
	for si := range d.File.Services {
		for k := range d.File.Services[si].Methods {
			m := &d.File.Services[si].Methods[k]
			if m.In == old {
				m.In = name
			}
			if m.Out == old {
				m.Out = name
			}
			if m.CustomReturn == GoCamelCase(old) && (!strings.HasPrefix(m.Out, ".") || m.Out == EmptyType) {
				// a custom return type is a Go type name, resolved in the output type's package
				m.CustomReturn = GoCamelCase(name)
			}
		}
	}
	return true
}
