package peng

import (
	"fmt"
	"sort"

	"pgregory.net/rapid"

	"verif/scen"
)

// Bias tunes the program generator.
type Bias struct {
	MinN, MaxN   int
	MaxThreads   int
	MinOps       int
	MaxOps       int
	MaxMgrs      int
	Kinds        []string
	Barriers     bool
	Cancel       bool     // cancellations / deadlines at generated instants
	ReleaseModes []string // handler release behaviours to draw from ("" = implicit)
	MaxSleepUs   int      // handler latency (timed, never gated)
	HoldNoRelUs  int      // timed hold without release (queue backs up)
	SlowQFUs     int      // slow quorum functions
	StreamItems  int      // max replies of a stream handler
	AwaitProb    int      // 1 in AwaitProb futures are awaited by the thread (0 = never)
	ErrorNodes   bool     // handlers may fail
	FullQuorum   bool     // thresholds may equal the configuration size (else strictly below when size > 1)
}

// GenShape draws cluster, managers, configurations and thread count.
func GenShape(t *rapid.T, b Bias) Case {
	if b.MinN == 0 {
		b.MinN = 1
	}
	n := rapid.IntRange(b.MinN, b.MaxN).Draw(t, "n")
	c := Case{N: n}
	c.RecvBuffer = rapid.SampledFrom([]uint{0, 0, 4}).Draw(t, "recvBuffer")
	nm := 1
	if b.MaxMgrs > 1 {
		nm = rapid.IntRange(1, b.MaxMgrs).Draw(t, "mgrs")
	}
	for i := 0; i < nm; i++ {
		c.Mgrs = append(c.Mgrs, scen.MgrOpts{
			SendBuffer:    rapid.SampledFrom([]uint{0, 0, 1, 2, 8}).Draw(t, fmt.Sprintf("sendBuffer%d", i)),
			ListIDs:       rapid.IntRange(0, 3).Draw(t, fmt.Sprintf("listIDs%d", i)) == 0,
			DialTimeoutMs: 50, BackoffMs: 20,
		})
	}
	ncfg := rapid.IntRange(1, 3).Draw(t, "ncfg")
	for i := 0; i < ncfg; i++ {
		size := rapid.IntRange(1, n).Draw(t, fmt.Sprintf("cfgSize%d", i))
		perm := rapid.Permutation(seq(n)).Draw(t, fmt.Sprintf("cfgPerm%d", i))
		cfg := append([]int(nil), perm[:size]...)
		sort.Ints(cfg)
		c.Configs = append(c.Configs, cfg)
	}
	c.Threads = rapid.IntRange(1, b.MaxThreads).Draw(t, "threads")
	return c
}

// cfgServers returns the servers of configuration index ci (0 = all).
func cfgServers(c Case, ci int) []int {
	ci = ci % (len(c.Configs) + 1)
	if ci == 0 {
		return seq(c.N)
	}
	return c.Configs[ci-1]
}

// GenCall draws one call op.
func GenCall(t *rapid.T, c Case, b Bias, i int) Op {
	l := func(s string) string { return fmt.Sprintf("%s%d", s, i) }
	kind := rapid.SampledFrom(b.Kinds).Draw(t, l("kind"))
	op := Op{Kind: "call", Thread: rapid.IntRange(0, c.Threads-1).Draw(t, l("thread")), Mgr: rapid.IntRange(0, len(c.Mgrs)-1).Draw(t, l("mgr"))}
	spec := scen.CallSpec{Kind: kind}
	spec.Config = rapid.IntRange(0, len(c.Configs)).Draw(t, l("cfg"))
	servers := cfgServers(c, spec.Config)
	if scen.IsNodeCall(kind) {
		spec.Node = rapid.IntRange(0, c.N-1).Draw(t, l("node"))
		servers = []int{spec.Node}
	}
	targets := servers
	if scen.HasPerNode(kind) && rapid.Bool().Draw(t, l("pernode")) {
		spec.PerNode = map[int]string{}
		var kept []int
		for _, s := range servers {
			if len(servers) > 1 && rapid.IntRange(0, 3).Draw(t, l(fmt.Sprintf("skip%d_", s))) == 0 {
				spec.PerNode[s] = "skip"
				continue
			}
			if rapid.Bool().Draw(t, l(fmt.Sprintf("tag%d_", s))) {
				spec.PerNode[s] = fmt.Sprintf("tag:%d", 1+s)
			}
			kept = append(kept, s)
		}
		if len(kept) == 0 {
			delete(spec.PerNode, servers[0])
			kept = []int{servers[0]}
		}
		targets = kept
	}
	nt := len(targets)
	if !scen.IsOneWay(kind) && kind != "RPC" {
		hi := nt
		if !b.FullQuorum && nt > 1 {
			hi = nt - 1
		}
		spec.Script = scen.QScript{Kind: "threshold", Q: rapid.IntRange(1, hi).Draw(t, l("q"))}
		if b.SlowQFUs > 0 && rapid.IntRange(0, 4).Draw(t, l("slowqf")) == 0 {
			spec.Script.SlowUs = rapid.IntRange(1, b.SlowQFUs).Draw(t, l("slowUs"))
		}
	}
	if scen.IsOneWay(kind) {
		spec.NoSendWait = rapid.Bool().Draw(t, l("nsw"))
	}
	spec.Payload = rapid.SampledFrom([]int{0, 0, 16, 1500}).Draw(t, l("payload"))
	// context
	spec.Ctx = "background"
	if scen.IsStream(kind) || scen.IsCorr(kind) || scen.IsAsync(kind) {
		spec.Ctx = "cancel" // ended by the harness at the end if it cannot end by itself
	}
	if b.Cancel {
		switch rapid.IntRange(0, 5).Draw(t, l("ctx")) {
		case 0, 1:
			spec.Ctx = "cancel"
			op.CancelUs = rapid.SampledFrom([]int{1, 50, 300, 1000, 3000}).Draw(t, l("cancelUs"))
		case 2:
			spec.Ctx = "deadline"
			spec.DeadlineUs = rapid.SampledFrom([]int{1, 100, 500, 2000, 5000}).Draw(t, l("deadlineUs"))
		case 3:
			spec.Ctx = "cancel"
		}
		if spec.Ctx != "background" && rapid.IntRange(0, 3).Draw(t, l("cause")) == 0 {
			spec.Cause = true // the context ends with a cause of the caller's own
		}
	}
	op.Call = spec
	// handler behaviours
	op.Behav = map[int]scen.Behaviour{}
	for _, s := range targets {
		var bh scen.Behaviour
		set := false
		if len(b.ReleaseModes) > 0 {
			bh.Release = rapid.SampledFrom(b.ReleaseModes).Draw(t, l(fmt.Sprintf("rel%d_", s)))
			set = set || bh.Release != ""
		}
		switch rapid.IntRange(0, 3).Draw(t, l(fmt.Sprintf("lat%d_", s))) {
		case 0:
			if b.MaxSleepUs > 0 {
				bh.SleepUs = rapid.IntRange(1, b.MaxSleepUs).Draw(t, l(fmt.Sprintf("sleep%d_", s)))
				set = true
			}
		case 1:
			if b.HoldNoRelUs > 0 && bh.Release == "" {
				bh.SleepUs = rapid.IntRange(1000, b.HoldNoRelUs).Draw(t, l(fmt.Sprintf("hold%d_", s)))
				set = true
			}
		}
		if b.ErrorNodes && rapid.IntRange(0, 5).Draw(t, l(fmt.Sprintf("err%d_", s))) == 0 {
			bh.ErrCode, bh.ErrMsg = rapid.SampledFrom([]int{2, 5, 14}).Draw(t, l(fmt.Sprintf("code%d_", s))), "scripted"
			bh.StampErr = true
			set = true
		}
		if scen.IsStream(kind) {
			k := 1
			if b.StreamItems > 1 {
				k = rapid.IntRange(1, b.StreamItems).Draw(t, l(fmt.Sprintf("items%d_", s)))
			}
			for j := 0; j < k; j++ {
				bh.Stream = append(bh.Stream, scen.StreamItem{Level: int32(j + 1)})
			}
			set = true
		}
		bh.Payload = rapid.SampledFrom([]int{0, 0, 8, 600}).Draw(t, l(fmt.Sprintf("rp%d_", s)))
		if set || bh.Payload > 0 {
			op.Behav[s] = bh
		}
	}
	if b.AwaitProb > 0 && (scen.IsAsync(kind) || scen.IsCorr(kind)) {
		op.Await = rapid.IntRange(0, b.AwaitProb-1).Draw(t, l("await")) == 0
	}
	return op
}

// GenProgram draws a whole program.
func GenProgram(t *rapid.T, b Bias) Case {
	c := GenShape(t, b)
	nops := rapid.IntRange(b.MinOps, b.MaxOps).Draw(t, "nops")
	for i := 0; i < nops; i++ {
		if b.Barriers && c.Threads > 1 && rapid.IntRange(0, 7).Draw(t, fmt.Sprintf("barrier%d", i)) == 0 {
			c.Ops = append(c.Ops, Op{Kind: "barrier"})
			continue
		}
		c.Ops = append(c.Ops, GenCall(t, c, b, i))
	}
	return c
}

func seq(n int) []int {
	s := make([]int, n)
	for i := range s {
		s[i] = i
	}
	return s
}
