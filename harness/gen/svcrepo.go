package gen

// Committed generated code (C17 part 1, DESIGN.md 3.6 b, e): extraction of the
// descriptor a *.pb.go file embeds (from source, the package is never
// imported), dependency closure, regeneration with the working tree's plugin
// and comparison "comments aside".

import (
	"bytes"
	"fmt"
	"go/ast"
	"go/parser"
	"go/scanner"
	"go/token"
	"io/fs"
	"os"
	"os/exec"
	"path"
	"path/filepath"
	"regexp"
	"sort"
	"strconv"
	"strings"
	"time"

	"google.golang.org/protobuf/proto"
	"google.golang.org/protobuf/reflect/protodesc"
	"google.golang.org/protobuf/reflect/protoregistry"
	"google.golang.org/protobuf/types/descriptorpb"

	// well-known files a committed proto may import
	_ "google.golang.org/protobuf/types/known/anypb"
	_ "google.golang.org/protobuf/types/known/durationpb"
	_ "google.golang.org/protobuf/types/known/emptypb"
	_ "google.golang.org/protobuf/types/known/structpb"
	_ "google.golang.org/protobuf/types/known/timestamppb"
	_ "google.golang.org/protobuf/types/known/wrapperspb"
)

var rawDescName = regexp.MustCompile(`^file_.*_rawDesc$`)

// constString evaluates a string constant expression made of literals and +.
func constString(e ast.Expr) (string, bool) {
	switch v := e.(type) {
	case *ast.BasicLit:
		if v.Kind != token.STRING {
			return "", false
		}
		s, err := strconv.Unquote(v.Value)
		return s, err == nil
	case *ast.BinaryExpr:
		if v.Op != token.ADD {
			return "", false
		}
		a, ok1 := constString(v.X)
		b, ok2 := constString(v.Y)
		return a + b, ok1 && ok2
	case *ast.ParenExpr:
		return constString(v.X)
	}
	return "", false
}

// EmbeddedDescriptor parses the Go source of a protoc-gen-go output file and
// returns the FileDescriptorProto embedded in its file_..._rawDesc variable
// (a []byte literal; newer protoc-gen-go versions use a string constant).
func EmbeddedDescriptor(goFile string) (*descriptorpb.FileDescriptorProto, error) {
	fset := token.NewFileSet()
	f, err := parser.ParseFile(fset, goFile, nil, parser.SkipObjectResolution)
	if err != nil {
		return nil, err
	}
	for _, d := range f.Decls {
		gd, ok := d.(*ast.GenDecl)
		if !ok || (gd.Tok != token.VAR && gd.Tok != token.CONST) {
			continue
		}
		for _, sp := range gd.Specs {
			vs := sp.(*ast.ValueSpec)
			for i, n := range vs.Names {
				if !rawDescName.MatchString(n.Name) || i >= len(vs.Values) {
					continue
				}
				var raw []byte
				switch v := vs.Values[i].(type) {
				case *ast.CompositeLit:
					for _, el := range v.Elts {
						bl, ok := el.(*ast.BasicLit)
						if !ok {
							return nil, fmt.Errorf("%s: %s has a non-literal element", goFile, n.Name)
						}
						var x uint64
						switch bl.Kind {
						case token.INT:
							x, err = strconv.ParseUint(bl.Value, 0, 8)
						case token.CHAR:
							var r rune
							r, _, _, err = strconv.UnquoteChar(strings.Trim(bl.Value, "'"), '\'')
							x = uint64(r)
						default:
							err = fmt.Errorf("unexpected literal %s", bl.Value)
						}
						if err != nil {
							return nil, fmt.Errorf("%s: %s: %v", goFile, n.Name, err)
						}
						raw = append(raw, byte(x))
					}
				default:
					s, ok := constString(v)
					if !ok {
						return nil, fmt.Errorf("%s: cannot evaluate %s", goFile, n.Name)
					}
					raw = []byte(s)
				}
				fd := &descriptorpb.FileDescriptorProto{}
				if err := proto.Unmarshal(raw, fd); err != nil {
					return nil, fmt.Errorf("%s: %s is not a FileDescriptorProto: %v", goFile, n.Name, err)
				}
				return fd, nil
			}
		}
	}
	return nil, fmt.Errorf("%s: no file_..._rawDesc variable found", goFile)
}

// RepoFiles is the index of committed generated code below a root.
type RepoFiles struct {
	Root string
	// Gorums lists the committed *_gorums.pb.go files (relative, slash separated, sorted).
	Gorums []string
	// ByProto maps the proto path of every embedded descriptor to the descriptor.
	ByProto map[string]*descriptorpb.FileDescriptorProto
	// GoFileOf maps a proto path to the *.pb.go file that embeds it (relative).
	GoFileOf map[string]string
}

// IndexRepo walks root for *.pb.go files.
func IndexRepo(root string) (*RepoFiles, error) {
	r := &RepoFiles{Root: root, ByProto: map[string]*descriptorpb.FileDescriptorProto{}, GoFileOf: map[string]string{}}
	err := filepath.WalkDir(root, func(p string, d fs.DirEntry, err error) error {
		if err != nil {
			return err
		}
		if d.IsDir() {
			if n := d.Name(); n == ".git" || n == "node_modules" || n == "vendor" {
				return filepath.SkipDir
			}
			return nil
		}
		rel, _ := filepath.Rel(root, p)
		rel = filepath.ToSlash(rel)
		switch {
		case strings.HasSuffix(rel, "_gorums.pb.go"):
			r.Gorums = append(r.Gorums, rel)
		case strings.HasSuffix(rel, "_grpc.pb.go"):
		case strings.HasSuffix(rel, ".pb.go"):
			fd, err := EmbeddedDescriptor(p)
			if err != nil {
				return err
			}
			if old, dup := r.GoFileOf[fd.GetName()]; dup {
				return fmt.Errorf("proto path %s is embedded in both %s and %s", fd.GetName(), old, rel)
			}
			r.ByProto[fd.GetName()] = fd
			r.GoFileOf[fd.GetName()] = rel
		}
		return nil
	})
	sort.Strings(r.Gorums)
	return r, err
}

// Closure returns fd's transitive dependencies followed by fd, in topological
// order; dependencies come from the repository index or, for files not
// committed there (google/protobuf/*), from the linked-in registry.
func (r *RepoFiles) Closure(fd *descriptorpb.FileDescriptorProto) ([]*descriptorpb.FileDescriptorProto, error) {
	var out []*descriptorpb.FileDescriptorProto
	seen := map[string]bool{}
	var visit func(f *descriptorpb.FileDescriptorProto, stack []string) error
	visit = func(f *descriptorpb.FileDescriptorProto, stack []string) error {
		if seen[f.GetName()] {
			return nil
		}
		for _, s := range stack {
			if s == f.GetName() {
				return fmt.Errorf("import cycle through %s", s)
			}
		}
		for _, dep := range f.Dependency {
			df := r.ByProto[dep]
			if df == nil {
				d, err := protoregistry.GlobalFiles.FindFileByPath(dep)
				if err != nil {
					return fmt.Errorf("%s imports %s, which is neither committed as *.pb.go nor a well-known file", f.GetName(), dep)
				}
				df = protodesc.ToFileDescriptorProto(d)
			}
			if err := visit(df, append(stack, f.GetName())); err != nil {
				return err
			}
		}
		seen[f.GetName()] = true
		out = append(out, f)
		return nil
	}
	if err := visit(fd, nil); err != nil {
		return nil, err
	}
	return out, nil
}

// Regenerated is the result of regenerating the gorums files of one directory.
type Regenerated struct {
	Dir     string            // relative directory
	Param   string            // plugin parameter used
	Emitted map[string]string // base name → content
	Sources map[string]string // base name → proto path it came from
	Err     string            // plugin refused / crashed
}

// RegenerateDir runs the plugin for every descriptor embedded in a plain
// *.pb.go file of dir, with the parameter the Makefiles use: dev=true if the
// directory holds per-call-type files (x_<type>_gorums.pb.go, the zorums
// files), else paths=source_relative.
func (r *RepoFiles) RegenerateDir(tl Tools, dir string) (*Regenerated, error) {
	res := &Regenerated{Dir: dir, Emitted: map[string]string{}, Sources: map[string]string{}}
	var protos []string
	for pp, gf := range r.GoFileOf {
		if path.Dir(gf) == dir {
			protos = append(protos, pp)
		}
	}
	sort.Strings(protos)
	for _, pp := range protos {
		base := strings.TrimSuffix(path.Base(r.GoFileOf[pp]), ".pb.go")
		param := "paths=source_relative"
		single, split := false, false
		for _, g := range r.Gorums {
			if path.Dir(g) != dir {
				continue
			}
			b := path.Base(g)
			if b == base+"_gorums.pb.go" {
				single = true
			} else if strings.HasPrefix(b, base+"_") {
				split = true
			}
		}
		if split && !single {
			param = "dev=true"
		}
		res.Param = param
		files, err := r.Closure(r.ByProto[pp])
		if err != nil {
			return nil, err
		}
		pr, err := RunPlugin(tl.Gorums, Request(param, files, pp), 60*time.Second, "")
		if err != nil {
			return nil, err
		}
		if pr.TimedOut || pr.Diagnosed() || pr.Resp == nil {
			res.Err = fmt.Sprintf("the plugin did not regenerate %s (parameter %q): exit %d %s %s", pp, param, pr.ExitCode, trim(pr.Stderr, 400), pr.Resp.GetError())
			return res, nil
		}
		for _, f := range pr.Resp.File {
			b := path.Base(f.GetName())
			res.Emitted[b] = f.GetContent()
			res.Sources[b] = pp
		}
	}
	return res, nil
}

// ---------------------------------------------------------------- comparison

type tok struct {
	tok token.Token
	lit string
	pos token.Position
}

func goTokens(name string, src []byte) ([]tok, error) {
	fset := token.NewFileSet()
	file := fset.AddFile(name, fset.Base(), len(src))
	var s scanner.Scanner
	var errs []string
	s.Init(file, src, func(pos token.Position, msg string) { errs = append(errs, fmt.Sprintf("%s: %s", pos, msg)) }, 0)
	var out []tok
	for {
		pos, t, lit := s.Scan()
		if t == token.EOF {
			break
		}
		if t == token.SEMICOLON {
			lit = ";" // automatic and explicit semicolons are the same token
		}
		out = append(out, tok{t, lit, fset.Position(pos)})
	}
	if len(errs) > 0 {
		return nil, fmt.Errorf("%s", strings.Join(errs, "; "))
	}
	return out, nil
}

// GoTokenDiff compares two Go sources comments aside: as token sequences with
// comments dropped (the scanner does not return them), which is equality of
// the comment-free syntax trees plus equality of literals. It returns "" if
// they are equal, else a description of the first difference.
func GoTokenDiff(nameA string, a []byte, nameB string, b []byte) (string, error) {
	ta, err := goTokens(nameA, a)
	if err != nil {
		return "", fmt.Errorf("%s does not scan: %v", nameA, err)
	}
	tb, err := goTokens(nameB, b)
	if err != nil {
		return "", fmt.Errorf("%s does not scan: %v", nameB, err)
	}
	return tokDiff(ta, tb), nil
}

func tokDiff(ta, tb []tok) string {
	show := func(t tok) string {
		if t.lit != "" {
			return fmt.Sprintf("%q", t.lit)
		}
		return t.tok.String()
	}
	ctx := func(ts []tok, i int) string {
		lo, hi := i-4, i+5
		if lo < 0 {
			lo = 0
		}
		if hi > len(ts) {
			hi = len(ts)
		}
		var parts []string
		for _, t := range ts[lo:hi] {
			if t.lit != "" {
				parts = append(parts, t.lit)
			} else {
				parts = append(parts, t.tok.String())
			}
		}
		return strings.Join(parts, " ")
	}
	for i := 0; i < len(ta) && i < len(tb); i++ {
		if ta[i].tok != tb[i].tok || ta[i].lit != tb[i].lit {
			return fmt.Sprintf("first difference at %s:%d vs %s:%d: %s vs %s (… %s … vs … %s …)",
				path.Base(ta[i].pos.Filename), ta[i].pos.Line, path.Base(tb[i].pos.Filename), tb[i].pos.Line, show(ta[i]), show(tb[i]), ctx(ta, i), ctx(tb, i))
		}
	}
	if len(ta) != len(tb) {
		return fmt.Sprintf("one file ends early: %d vs %d tokens", len(ta), len(tb))
	}
	return ""
}

// staticTemplateParts splits template_static.go into the tokens outside the
// staticCode literal and the Go source held in the literal.
func staticTemplateParts(name string, src []byte) ([]tok, string, error) {
	fset := token.NewFileSet()
	f, err := parser.ParseFile(fset, name, src, parser.SkipObjectResolution)
	if err != nil {
		return nil, "", err
	}
	var lo, hi token.Pos
	code, found := "", false
	for _, d := range f.Decls {
		gd, ok := d.(*ast.GenDecl)
		if !ok || gd.Tok != token.VAR {
			continue
		}
		for _, sp := range gd.Specs {
			vs := sp.(*ast.ValueSpec)
			for i, n := range vs.Names {
				if n.Name == "staticCode" && i < len(vs.Values) {
					s, ok := constString(vs.Values[i])
					if !ok {
						return nil, "", fmt.Errorf("%s: cannot evaluate staticCode", name)
					}
					code, found = s, true
					lo, hi = vs.Values[i].Pos(), vs.Values[i].End()
				}
			}
		}
	}
	if !found {
		return nil, "", fmt.Errorf("%s: no staticCode variable", name)
	}
	all, err := goTokens(name, src)
	if err != nil {
		return nil, "", err
	}
	lop, hip := fset.Position(lo).Offset, fset.Position(hi).Offset
	var rest []tok
	for _, t := range all {
		if t.pos.Offset >= lop && t.pos.Offset < hip {
			continue
		}
		rest = append(rest, t)
	}
	return rest, code, nil
}

// StaticTemplateDiff compares two versions of template_static.go comments
// aside: the file's own tokens, and the Go code inside the staticCode string
// (again as tokens without comments).
func StaticTemplateDiff(nameA string, a []byte, nameB string, b []byte) (string, error) {
	ra, ca, err := staticTemplateParts(nameA, a)
	if err != nil {
		return "", err
	}
	rb, cb, err := staticTemplateParts(nameB, b)
	if err != nil {
		return "", err
	}
	if d := tokDiff(ra, rb); d != "" {
		return d, nil
	}
	return GoTokenDiff(nameA+":staticCode", []byte("package p\n"+ca), nameB+":staticCode", []byte("package p\n"+cb))
}

// Bundle runs `protoc-gen-gorums --bundle=<copy>` on a copy of
// template_static.go below the work directory (cwd = repo root,
// GOFLAGS=-mod=readonly; the tool writes only the named file) and returns the
// regenerated content.
func Bundle(tl Tools) ([]byte, error) {
	orig := filepath.Join(tl.Repo, "cmd", "protoc-gen-gorums", "gengorums", "template_static.go")
	src, err := os.ReadFile(orig)
	if err != nil {
		return nil, err
	}
	dir := filepath.Join(tl.Work, "gen", fmt.Sprintf("bundle-%d-%d", os.Getpid(), scratchSeq.Add(1)))
	if err := os.MkdirAll(dir, 0o755); err != nil {
		return nil, err
	}
	defer os.RemoveAll(dir)
	cp := filepath.Join(dir, "template_static.go")
	if err := os.WriteFile(cp, src, 0o644); err != nil {
		return nil, err
	}
	cmd := exec.Command(tl.Gorums, "--bundle="+cp)
	cmd.Dir = tl.Repo
	cmd.Env = append(os.Environ(), "GOFLAGS=-mod=readonly", "GOPROXY=off", "GOSUMDB=off", "GOTOOLCHAIN=local", "GOWORK=off")
	var out bytes.Buffer
	cmd.Stdout, cmd.Stderr = &out, &out
	done := make(chan error, 1)
	if err := cmd.Start(); err != nil {
		return nil, err
	}
	go func() { done <- cmd.Wait() }()
	select {
	case err := <-done:
		if err != nil {
			return nil, fmt.Errorf("protoc-gen-gorums --bundle failed: %v\n%s", err, trim(out.String(), 1500))
		}
	case <-time.After(10 * time.Minute):
		_ = cmd.Process.Kill()
		return nil, fmt.Errorf("protoc-gen-gorums --bundle timed out")
	}
	return os.ReadFile(cp)
}

// RepoStatus returns `git status --short` of the repository (to verify that a
// step did not touch it).
func RepoStatus(tl Tools) (string, error) {
	cmd := exec.Command("git", "-C", tl.Repo, "status", "--short")
	b, err := cmd.CombinedOutput()
	return string(b), err
}
