package scen

import (
	"sync"
	"time"
)

// RepSnap is what the recorder keeps of a reply.
type RepSnap struct {
	Token   uint64 `json:"token"`
	Seq     uint64 `json:"seq,omitempty"`
	Node    uint32 `json:"node"`
	Serial  uint64 `json:"serial"`
	Level   int32  `json:"level,omitempty"`
	NodeTag uint32 `json:"tag,omitempty"`
	PayHash uint64 `json:"ph,omitempty"`
	Nonce   uint64 `json:"nonce,omitempty"`
}

// Event is one entry of the global history of a case.
type Event struct {
	T      int    `json:"t"`
	Kind   string `json:"k"`
	Call   int    `json:"call"`
	Token  uint64 `json:"tok,omitempty"`
	Server int    `json:"srv"`
	Conn   int    `json:"conn,omitempty"`
	Method string `json:"m,omitempty"`
	Seq    uint64 `json:"seq,omitempty"`
	Tag    uint32 `json:"tag,omitempty"`
	// handler events
	PayHash uint64 `json:"ph,omitempty"`
	Serial  uint64 `json:"serial,omitempty"`
	ErrCode int    `json:"code,omitempty"`
	ErrMsg  string `json:"emsg,omitempty"`
	Item    int    `json:"item,omitempty"` // stream item index
	// qf events
	N        int                `json:"n,omitempty"` // invocation index within the call (1-based)
	ReqOK    bool               `json:"reqok,omitempty"`
	Replies  map[uint32]RepSnap `json:"replies,omitempty"`
	Done     bool               `json:"done,omitempty"`
	Level    int                `json:"level,omitempty"`
	Nonce    uint64             `json:"nonce,omitempty"`
	Inflight int                `json:"inflight,omitempty"`
	AfterRet bool               `json:"afterret,omitempty"`
	BadType  string             `json:"badtype,omitempty"`
	// return events
	Outcome string   `json:"outcome,omitempty"` // value | error | none(one-way)
	ErrText string   `json:"err,omitempty"`
	IsInc   bool     `json:"isinc,omitempty"`
	IsCanc  bool     `json:"iscanc,omitempty"`
	IsDead  bool     `json:"isdead,omitempty"`
	IsCtx   bool     `json:"isctx,omitempty"`
	Value   *RepSnap `json:"value,omitempty"`
	ValType string   `json:"vtype,omitempty"`
	// misc
	MD   map[string][]string `json:"md,omitempty"`
	Note string              `json:"note,omitempty"`
}

// Log is the event log with a logical clock.
type Log struct {
	mu     sync.Mutex
	cond   *sync.Cond
	events []Event
}

// NewLog returns an empty log.
func NewLog() *Log {
	l := &Log{}
	l.cond = sync.NewCond(&l.mu)
	return l
}

// Add appends an event and returns its logical time.
func (l *Log) Add(e Event) int {
	l.mu.Lock()
	e.T = len(l.events)
	l.events = append(l.events, e)
	l.mu.Unlock()
	l.cond.Broadcast()
	return e.T
}

// AddFn appends an event computed under the log's lock (so that the event can
// depend atomically on what is already logged).
func (l *Log) AddFn(f func(prev []Event) Event) int {
	l.mu.Lock()
	e := f(l.events)
	e.T = len(l.events)
	l.events = append(l.events, e)
	l.mu.Unlock()
	l.cond.Broadcast()
	return e.T
}

// Snapshot returns a copy of the events so far.
func (l *Log) Snapshot() []Event {
	l.mu.Lock()
	defer l.mu.Unlock()
	return append([]Event(nil), l.events...)
}

// Len returns the current logical time.
func (l *Log) Len() int {
	l.mu.Lock()
	defer l.mu.Unlock()
	return len(l.events)
}

// WaitFor blocks until pred holds on the log or the timeout expires.
func (l *Log) WaitFor(d time.Duration, pred func([]Event) bool) bool {
	deadline := time.Now().Add(d)
	stop := make(chan struct{})
	defer close(stop)
	go func() {
		// wake the waiter at the deadline
		t := time.NewTimer(d)
		defer t.Stop()
		select {
		case <-t.C:
			l.cond.Broadcast()
		case <-stop:
		}
	}()
	l.mu.Lock()
	defer l.mu.Unlock()
	for {
		if pred(l.events) {
			return true
		}
		if !time.Now().Before(deadline) {
			return false
		}
		l.cond.Wait()
	}
}

// Count returns the number of events matching f.
func Count(evs []Event, f func(Event) bool) int {
	n := 0
	for _, e := range evs {
		if f(e) {
			n++
		}
	}
	return n
}

// Find returns the first event matching f.
func Find(evs []Event, f func(Event) bool) (Event, bool) {
	for _, e := range evs {
		if f(e) {
			return e, true
		}
	}
	return Event{}, false
}

// Filter returns the events matching f.
func Filter(evs []Event, f func(Event) bool) []Event {
	var out []Event
	for _, e := range evs {
		if f(e) {
			out = append(out, e)
		}
	}
	return out
}
