// Command vinstr writes instrumented copies of relab/gorums' runtime files for
// the schedule-perturbation overlay: a call `verifPoint(N); ` is inserted (on
// the same line, so line numbers are preserved) before every statement of
// every statement list. It is generic: it needs no knowledge of the code's
// shape and works on an edited tree.
//
//	vinstr -repo /repo -out <dir>   → <dir>/<file>.go ... and <dir>/replace.json, <dir>/points.json
package main

import (
	"encoding/json"
	"flag"
	"fmt"
	"go/ast"
	"go/parser"
	"go/token"
	"os"
	"path/filepath"
	"sort"
)

var files = []string{"channel.go", "server.go", "quorumcall.go", "async.go", "correctable.go", "multicast.go", "unicast.go", "rpc.go", "mgr.go", "node.go", "config_opts.go"}

type point struct {
	ID   int    `json:"id"`
	File string `json:"file"`
	Line int    `json:"line"`
	Func string `json:"func"`
}

func main() {
	repo := flag.String("repo", "/repo", "repository root")
	out := flag.String("out", "", "output directory")
	flag.Parse()
	if err := os.MkdirAll(*out, 0o755); err != nil {
		fatal(err)
	}
	replace := map[string]string{}
	var points []point
	next := 1
	for _, name := range files {
		path := filepath.Join(*repo, name)
		src, err := os.ReadFile(path)
		if err != nil {
			continue // a file may have been removed/renamed on an edited tree
		}
		fset := token.NewFileSet()
		f, err := parser.ParseFile(fset, path, src, parser.ParseComments)
		if err != nil {
			fatal(fmt.Errorf("%s: %w", name, err))
		}
		type ins struct {
			off int
			id  int
		}
		var inserts []ins
		var curFunc string
		addList := func(list []ast.Stmt) {
			for _, st := range list {
				switch st.(type) {
				case *ast.LabeledStmt, *ast.CaseClause, *ast.CommClause, *ast.EmptyStmt:
					continue
				}
				pos := fset.Position(st.Pos())
				inserts = append(inserts, ins{pos.Offset, next})
				points = append(points, point{next, name, pos.Line, curFunc})
				next++
			}
		}
		ast.Inspect(f, func(n ast.Node) bool {
			switch x := n.(type) {
			case *ast.FuncDecl:
				curFunc = x.Name.Name
				if x.Recv != nil && len(x.Recv.List) > 0 {
					curFunc = exprString(x.Recv.List[0].Type) + "." + x.Name.Name
				}
			case *ast.BlockStmt:
				addList(x.List)
			case *ast.CaseClause:
				addList(x.Body)
			case *ast.CommClause:
				addList(x.Body)
			}
			return true
		})
		sort.Slice(inserts, func(i, j int) bool { return inserts[i].off > inserts[j].off })
		buf := append([]byte(nil), src...)
		for _, in := range inserts {
			txt := []byte(fmt.Sprintf("verifPoint(%d); ", in.id))
			buf = append(buf[:in.off], append(txt, buf[in.off:]...)...)
		}
		dst := filepath.Join(*out, name)
		if err := os.WriteFile(dst, buf, 0o644); err != nil {
			fatal(err)
		}
		replace[path] = dst
	}
	b, _ := json.MarshalIndent(replace, "", " ")
	_ = os.WriteFile(filepath.Join(*out, "replace.json"), b, 0o644)
	pb, _ := json.Marshal(points)
	_ = os.WriteFile(filepath.Join(*out, "points.json"), pb, 0o644)
	fmt.Printf("vinstr: %d points in %d files\n", next-1, len(replace))
}

func exprString(e ast.Expr) string {
	switch x := e.(type) {
	case *ast.StarExpr:
		return "*" + exprString(x.X)
	case *ast.Ident:
		return x.Name
	}
	return "?"
}

func fatal(err error) {
	fmt.Fprintln(os.Stderr, "vinstr:", err)
	os.Exit(1)
}
