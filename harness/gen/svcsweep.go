package gen

import (
	"encoding/json"
	"sort"
	"strings"
)

// SweepNames returns every definition that differs from the legal definition
// base in exactly one name taken from the hostile pools: each method renamed to
// each keyword/static name, each message to each keyword/static/reserved name
// and to each name derived (Async*, Correctable*, internal*, Register*Server,
// ...) from each Go name the definition uses, and each service to each
// keyword/static/reserved name and to the alternative spelling of each message.
// It enumerates what corrupt() draws at random, one corruption at a time, and
// is used to list the single-name findings of C16 exhaustively.
func SweepNames(base Def) []Def {
	clone := func() Def {
		var d Def
		b, _ := json.Marshal(base)
		_ = json.Unmarshal(b, &d)
		return d
	}
	var res []Def
	f := &base.File
	// methods
	var mnames []string
	mnames = append(mnames, keywordNames...)
	mnames = append(mnames, staticMethodNames...)
	for si, s := range f.Services {
		for mi, m := range s.Methods {
			names := append([]string{}, mnames...)
			for _, o := range s.Methods {
				if o.Name != m.Name {
					names = append(names, o.Name+"QF", altSpelling(o.Name))
				}
			}
		next:
			for _, n := range names {
				for _, o := range s.Methods {
					if o.Name == n {
						continue next
					}
				}
				d := clone()
				d.File.Services[si].Methods[mi].Name = n
				res = append(res, d)
			}
		}
	}
	// Go names the templates may derive identifiers from
	baseSet := map[string]bool{}
	for _, s := range f.Services {
		baseSet[GoCamelCase(s.Name)] = true
		for _, m := range s.Methods {
			baseSet[GoCamelCase(m.Name)] = true
			baseSet[GoCamelCase(m.Out[strings.LastIndex(m.Out, ".")+1:])] = true
			if m.CustomReturn != "" {
				baseSet[m.CustomReturn] = true
			}
		}
	}
	for _, m := range f.Messages {
		baseSet[GoCamelCase(m.Name)] = true
	}
	var bases []string
	for b := range baseSet {
		bases = append(bases, b)
	}
	sort.Strings(bases)
	var tnames []string
	tnames = append(tnames, keywordNames...)
	tnames = append(tnames, staticTypeNames...)
	tnames = append(tnames, reservedTypeNames...)
	for _, p := range derivedTypePrefixes {
		for _, b := range bases {
			if p == "Register" {
				tnames = append(tnames, "Register"+b+"Server")
			} else {
				tnames = append(tnames, p+b)
			}
		}
	}
	for _, b := range bases {
		tnames = append(tnames, b+"Server")
	}
	for mi := range f.Messages {
		for _, n := range tnames {
			d := clone()
			if renameMessage(&d, mi, n) {
				res = append(res, d)
			}
		}
	}
	// services
	var snames []string
	snames = append(snames, keywordNames...)
	snames = append(snames, reservedTypeNames...)
	snames = append(snames, staticTypeNames...)
	snames = append(snames, staticMethodNames...)
	for _, m := range f.Messages {
		snames = append(snames, altSpelling(m.Name))
	}
	for si := range f.Services {
		for _, n := range snames {
			if protoNameTaken(&base, n) {
				continue
			}
			d := clone()
			d.File.Services[si].Name = n
			res = append(res, d)
		}
	}
	return res
}
