// C12 — Close stops everything and strands no caller.
package c12

import (
	"fmt"
	"strings"
	"testing"

	"github.com/relab/gorums"
	"pgregory.net/rapid"

	"verif/peng"
	"verif/puppet"
	"verif/scen"
	"verif/vt"
)

type Case struct {
	P peng.Case `json:"p"`
	// NoConnect: a manager created WithNoConnect is only created (with a configuration) and closed.
	NoConnect bool `json:"no_connect,omitempty"`
}

func genCall(t *rapid.T, c peng.Case, i int, held []bool) peng.Op {
	b := peng.Bias{Kinds: scen.AllKinds, FullQuorum: true, StreamItems: 2, MaxSleepUs: 500}
	op := peng.GenCall(t, c, b, i)
	if op.Thread == 0 {
		op.Thread = 1 + rapid.IntRange(0, c.Threads-2).Draw(t, fmt.Sprintf("thr%d", i))
	}
	// contexts never end by themselves: only Close can release the caller
	op.Call.Ctx, op.CancelUs, op.Call.DeadlineUs = "background", 0, 0
	if scen.IsAsync(op.Call.Kind) || scen.IsCorr(op.Call.Kind) {
		op.Await = rapid.Bool().Draw(t, fmt.Sprintf("await%d", i))
	}
	if scen.IsCorr(op.Call.Kind) {
		// the caller waits in Watch alone, for a level the call never reaches
		op.Call.WaitWatch = rapid.IntRange(0, 2).Draw(t, fmt.Sprintf("waitWatch%d", i)) == 0
	}
	for s := 0; s < c.N; s++ {
		if held[s] {
			bh := op.Behav[s]
			bh.Gate = true
			bh.Release = rapid.SampledFrom([]string{"", "early"}).Draw(t, fmt.Sprintf("heldRel%d_%d", i, s))
			op.Behav[s] = bh
		}
	}
	return op
}

func gen(t *rapid.T) Case {
	if rapid.IntRange(0, 19).Draw(t, "noConnect") == 0 {
		return Case{NoConnect: true, P: peng.Case{N: rapid.IntRange(1, 3).Draw(t, "n")}}
	}
	n := rapid.IntRange(1, 4).Draw(t, "n")
	c := peng.Case{N: n, CloseCheck: true}
	c.Jitter = peng.GenJitter(t)
	c.Mgrs = []scen.MgrOpts{{
		SendBuffer:    rapid.SampledFrom([]uint{0, 0, 1, 4, 16}).Draw(t, "sendBuffer"),
		WithBlock:     rapid.Bool().Draw(t, "withBlock"),
		DialTimeoutMs: 30, BackoffMs: 20,
		ListIDs: rapid.IntRange(0, 3).Draw(t, "listIDs") == 0,
	}}
	c.RecvBuffer = rapid.SampledFrom([]uint{0, 4}).Draw(t, "recvBuffer")
	held := make([]bool, n)
	for s := 0; s < n; s++ {
		switch rapid.IntRange(0, 4).Draw(t, fmt.Sprintf("state%d", s)) {
		case 0:
			c.Down = append(c.Down, s)
		case 1, 2:
			held[s] = true
		}
	}
	ncfg := rapid.IntRange(1, 2).Draw(t, "ncfg")
	for i := 0; i < ncfg; i++ {
		size := rapid.IntRange(1, n).Draw(t, fmt.Sprintf("cfgSize%d", i))
		perm := rapid.Permutation(seqInts(n)).Draw(t, fmt.Sprintf("cfgPerm%d", i))
		cfg := append([]int(nil), perm[:size]...)
		sortInts(cfg)
		c.Configs = append(c.Configs, cfg)
	}
	c.Threads = rapid.IntRange(2, 5).Draw(t, "threads")
	// phase A: calls in flight / concurrent with Close
	na := rapid.IntRange(0, 10).Draw(t, "na")
	for i := 0; i < na; i++ {
		op := genCall(t, c, i, held)
		// some calls are abandoned while they are being sent: the stream is reset and
		// re-created before (or while) Close strikes
		if rapid.IntRange(0, 3).Draw(t, fmt.Sprintf("abandon%d", i)) == 0 {
			op.Call.Ctx, op.CancelUs = "cancel", rapid.SampledFrom([]int{1, 50, 300}).Draw(t, fmt.Sprintf("abandonUs%d", i))
		}
		c.Ops = append(c.Ops, op)
	}
	// a server-stream correctable that is behind on its replies when Close (or a stream failure)
	// strikes: the nodes have sent more replies than the slow quorum function has taken, so the
	// call's reply channel is full at that instant; the caller waits in Get/Done or in Watch
	if rapid.IntRange(0, 3).Draw(t, "backlog") == 0 {
		ci := rapid.IntRange(0, len(c.Configs)).Draw(t, "backlogCfg") // 0 = all nodes
		kind := rapid.SampledFrom([]string{"CorrStream", "CorrStream", "CorrStreamCustom", "CorrStreamPerNode", "CorrStreamCombo"}).Draw(t, "backlogKind")
		op := peng.Op{Kind: "call", Thread: 1 + rapid.IntRange(0, c.Threads-2).Draw(t, "backlogThr"), Mgr: 0,
			Call: scen.CallSpec{Kind: kind, Config: ci, Ctx: "background"}, Behav: map[int]scen.Behaviour{}}
		op.Call.Script = scen.QScript{Kind: "threshold", Q: 1000, SlowUs: rapid.SampledFrom([]int{1000, 5000, 20000}).Draw(t, "backlogSlowUs")}
		op.Await = true
		op.Call.WaitWatch = rapid.IntRange(0, 2).Draw(t, "backlogWatch") == 0
		for s := 0; s < n; s++ {
			bh := scen.Behaviour{}
			k := rapid.IntRange(3, 9).Draw(t, fmt.Sprintf("backlogItems%d", s))
			for j := 0; j < k; j++ {
				bh.Stream = append(bh.Stream, scen.StreamItem{Level: int32(j + 1)})
			}
			bh.StreamEndless = rapid.IntRange(0, 3).Draw(t, fmt.Sprintf("backlogEndless%d", s)) == 0
			op.Behav[s] = bh
		}
		c.Ops = append(c.Ops, op)
	}
	// a server that crashes and comes back before Close: its node has been through a reconnection
	if rapid.IntRange(0, 3).Draw(t, "restart") == 0 {
		s := rapid.IntRange(0, n-1).Draw(t, "restartNode")
		down := false
		for _, d := range c.Down {
			if d == s {
				down = true
			}
		}
		if !down {
			c.Ops = append(c.Ops,
				peng.Op{Kind: "stop", Thread: 1, Call: scen.CallSpec{Node: s}},
				peng.Op{Kind: "sleep", Thread: 1, Us: rapid.SampledFrom([]int{100, 2000, 30000}).Draw(t, "downUs")},
				peng.Op{Kind: "start", Thread: 1, Call: scen.CallSpec{Node: s}},
				peng.Op{Kind: "sleep", Thread: 1, Us: rapid.SampledFrom([]int{100, 5000}).Draw(t, "upUs")})
		}
	}
	// transient faults before (or while) Close strikes: a single stream write that fails, or the
	// connections to a server breaking underneath it
	switch rapid.IntRange(0, 7).Draw(t, "fault") {
	case 0:
		c.Mgrs[0].FailSendAt = []int{rapid.IntRange(1, 12).Draw(t, "failSendAt")}
	case 1:
		c.Ops = append(c.Ops, peng.Op{Kind: "sleep", Thread: 1, Us: rapid.SampledFrom([]int{0, 100, 1000}).Draw(t, "cutAfterUs")},
			peng.Op{Kind: "cut", Thread: 1, Call: scen.CallSpec{Node: rapid.IntRange(0, n-1).Draw(t, "cutNode")}})
	}
	// an AddNode that the manager refuses (the id is registered already): whatever it started must be gone after Close
	if rapid.IntRange(0, 3).Draw(t, "addDup") == 0 {
		c.Ops = append(c.Ops, peng.Op{Kind: "adddup", Thread: 1, Call: scen.CallSpec{Node: rapid.IntRange(0, n-1).Draw(t, "addDupNode")}})
	}
	// non-reading server with a flood: requests being written when Close strikes
	if rapid.IntRange(0, 3).Draw(t, "flood") == 0 {
		for s := 0; s < n; s++ {
			if held[s] {
				c.Ops = append(c.Ops, peng.Op{Kind: "flood", Thread: 1, Us: 400, Call: scen.CallSpec{Node: s, Payload: 3000}})
				break
			}
		}
	}
	// the closer thread (thread 0) only sleeps and closes
	closer := []peng.Op{
		{Kind: "sleep", Thread: 0, Us: rapid.SampledFrom([]int{0, 50, 300, 1000, 3000}).Draw(t, "closeAfterUs")},
		{Kind: "close", Thread: 0, Us: rapid.IntRange(1, 3).Draw(t, "closers")},
	}
	// servers that were down when the manager was built come up right after (or while) Close
	// runs: a dial that is still under way, or is started late, now succeeds
	if len(c.Down) > 0 && rapid.Bool().Draw(t, "lateUp") {
		closer = append(closer, peng.Op{Kind: "sleep", Thread: 0, Us: rapid.SampledFrom([]int{0, 0, 100, 2000}).Draw(t, "lateUpUs")})
		for _, s := range c.Down {
			closer = append(closer, peng.Op{Kind: "start", Thread: 0, Call: scen.CallSpec{Node: s}})
		}
		if rapid.Bool().Draw(t, "lateUpBeforeClose") {
			// ... or just before Close strikes
			closer[1], closer[len(closer)-1] = closer[len(closer)-1], closer[1]
		}
	}
	pos := rapid.IntRange(0, len(c.Ops)).Draw(t, "closePos")
	ops := append([]peng.Op(nil), c.Ops[:pos]...)
	ops = append(ops, closer...)
	ops = append(ops, c.Ops[pos:]...)
	c.Ops = ops
	c.Ops = append(c.Ops, peng.Op{Kind: "barrier"})
	// phase B: calls after Close returned, and Close again
	nb := rapid.IntRange(0, 8).Draw(t, "nb")
	for i := 0; i < nb; i++ {
		c.Ops = append(c.Ops, genCall(t, c, 100+i, held))
	}
	if rapid.Bool().Draw(t, "closeAgain") {
		c.Ops = append(c.Ops, peng.Op{Kind: "close", Thread: 0, Us: rapid.IntRange(1, 2).Draw(t, "closers2")})
	}
	return Case{P: c}
}

func seqInts(n int) []int {
	s := make([]int, n)
	for i := range s {
		s[i] = i
	}
	return s
}

func sortInts(a []int) {
	for i := 1; i < len(a); i++ {
		for j := i; j > 0 && a[j] < a[j-1]; j-- {
			a[j], a[j-1] = a[j-1], a[j]
		}
	}
}

type qs struct{ puppet.QuorumSpec }

func runNoConnect(c Case) vt.Verdict {
	var pan any
	func() {
		defer func() { pan = recover() }()
		mgr := puppet.NewManager(gorums.WithNoConnect())
		addrs := map[string]uint32{}
		for i := 0; i < c.P.N; i++ {
			addrs[scen.Addr(i)] = scen.NodeID(i)
		}
		if _, err := mgr.NewConfiguration(qs{}, gorums.WithNodeMap(addrs)); err != nil {
			return
		}
		mgr.Close()
		mgr.Close()
	}()
	if pan != nil {
		return vt.Fail("C12/close-panic/no-connect", "Close on a manager created with WithNoConnect panicked: %v", pan)
	}
	return vt.Pass(true, "no-connect-manager")
}

func sigOf(h string) string {
	if i := strings.Index(h, ": "); i >= 0 {
		return h[i+2:]
	}
	return h
}

func run(c Case) vt.Verdict {
	if c.NoConnect {
		return runNoConnect(c)
	}
	r := peng.Run(c.P, peng.Hooks{})
	if r.SetupErr != "" {
		return vt.Verdict{OK: true, Inconclusive: true, Msg: r.SetupErr, Classes: []string{"setup-error"}}
	}
	var classes []string
	// measured: calls in flight when Close began
	closeBegin, closeEnd := -1, -1
	for _, e := range r.Events {
		if e.Kind == "close_begin" && closeBegin < 0 {
			closeBegin = e.T
		}
		if e.Kind == "close_end" && closeEnd < 0 {
			closeEnd = e.T
		}
	}
	issueT, retT := map[uint64]int{}, map[uint64]int{}
	for _, e := range r.Events {
		if e.Kind == "issue" {
			issueT[e.Token] = e.T
		}
		if e.Kind == "return" {
			retT[e.Token] = e.T
		}
	}
	inflight, during, after := 0, 0, 0
	for tok, it := range issueT {
		rt, ok := retT[tok]
		switch {
		case it < closeBegin && (!ok || rt > closeBegin):
			inflight++
		case it > closeBegin && closeEnd >= 0 && it < closeEnd:
			during++
		case closeEnd >= 0 && it > closeEnd:
			after++
		}
	}
	if inflight > 0 {
		classes = append(classes, "calls-in-flight-at-close")
	}
	if during > 0 {
		classes = append(classes, "calls-issued-during-close")
	}
	if after > 0 {
		classes = append(classes, "calls-after-close")
	}
	if c.P.Mgrs[0].SendBuffer > 0 {
		classes = append(classes, "send-buffer")
	}
	if len(c.P.Down) > 0 {
		classes = append(classes, "node-never-connected")
	}
	for _, op := range c.P.Ops {
		if op.Kind == "stop" {
			classes = append(classes, "server-crashed-before-close")
			break
		}
	}
	for _, op := range c.P.Ops {
		if op.Kind == "call" && op.CancelUs > 0 {
			classes = append(classes, "call-abandoned-during-send-before-close")
			break
		}
	}
	naccept := map[int]int{}
	for _, e := range r.Events {
		if e.Kind == "accept" {
			naccept[e.Server]++
		}
	}
	for _, k := range naccept {
		if k > 1 {
			classes = append(classes, "node-reconnected-before-close")
			break
		}
	}
	hist := func(v vt.Verdict) vt.Verdict { v.History = r.Events; v.Classes = classes; return v }
	if r.ClosePanic != "" {
		return hist(vt.Fail("C12/close-panic", "Close panicked: %s", r.ClosePanic))
	}
	if r.CloseHung != "" {
		return hist(vt.Fail("C12/close-hangs/"+r.CloseHung, "Close did not return within 2x%v: %s", scen.B, r.CloseHung))
	}
	if len(r.HungAfterClose) > 0 {
		h := r.HungAfterClose[0]
		kind := strings.TrimSuffix(strings.Fields(h)[2], ":")
		when := "in-flight"
		for _, ci := range r.Calls {
			if fmt.Sprintf("call %d ", ci.Idx) == h[:len(fmt.Sprintf("call %d ", ci.Idx))] {
				if it, ok := issueT[ci.Token]; ok && closeEnd >= 0 && it > closeEnd {
					when = "post-close"
				} else if ok && it > closeBegin {
					when = "during-close"
				}
			}
		}
		return hist(vt.Fail("C12/stranded/"+when+"/"+strings.ToLower(kind)+"/"+sigOf(h), "%d call(s) had not returned 2x%v after Close returned (send buffer %d): %s",
			len(r.HungAfterClose), scen.B, c.P.Mgrs[0].SendBuffer, strings.Join(r.HungAfterClose, "; ")))
	}
	// panics in calls
	for _, e := range r.Events {
		if e.Kind == "return" && e.Outcome == "panic" {
			return hist(vt.Fail("C12/call-panic", "call %d (%s) panicked: %s", e.Call, e.Method, e.ErrText))
		}
	}
	// post-close two-way calls fail
	for _, ci := range r.Calls {
		it, ok := issueT[ci.Token]
		if !ok || closeEnd < 0 || it < closeEnd || scen.IsOneWay(ci.Kind) {
			continue
		}
		if ci.Call.Outcome == "value" {
			return hist(vt.Fail("C12/post-close-success/"+strings.ToLower(ci.Kind), "call %d (%s) issued after Close returned reported success", ci.Idx, ci.Kind))
		}
	}
	if len(r.Residue) > 0 {
		seen := map[string]bool{}
		var kinds []string
		for _, g := range r.Residue {
			k := g
			if i := strings.Index(k, "@"); i >= 0 {
				k = k[:i]
			}
			if !seen[k] {
				seen[k] = true
				kinds = append(kinds, k)
			}
		}
		return hist(vt.Fail("C12/goroutines-remain/"+kinds[0], "%v after Close returned and every call ended, %d goroutine(s) of the manager remain: %s", scen.B, len(r.Residue), strings.Join(r.Residue, "; ")))
	}
	res := vt.Pass(inflight > 0 || during > 0 || c.P.Mgrs[0].SendBuffer > 0 || len(c.P.Down) > 0, classes...)
	res.Inconclusive = r.Late
	return res
}

func TestProp(t *testing.T) {
	vt.Main(t, vt.Spec[Case]{
		ID:           "C12",
		Rule:         "crash-point generation: a manager with send buffer 0/1/4/16, with/without WithBlock, nodes down at creation, nodes whose handlers are held (with or without Release, so that requests are awaiting replies or stuck behind a non-reading server, optionally with a flood being written); 0-10 calls of all kinds with contexts that never end (a third of the correctable callers wait in Watch alone, for a level that is never reached), issued by 1-4 threads before and concurrently with Close, some abandoned during their send (stream reset before Close), optionally a server crash and restart before Close, in a quarter of the cases a transient fault (an injected failure of a single stream write, or a cut of the connections to a server that keeps listening), optionally an AddNode with an id that is registered already (refused), optionally the servers that were down at creation coming up just before or right after Close (a late dial succeeds), in half of the cases seeded jitter at the statement-level yield points of the instrumented runtime; Close struck after a generated delay from 1-3 goroutines; then 0-8 calls after Close returned and optionally Close again; plus WithNoConnect managers that are only created and closed. Oracle: Close returns and never panics, every call returns within the hang bound after Close although all handlers stay held, post-Close two-way calls do not succeed, no call panics, and within the bound no sender/receiver/watcher/async/correctable goroutine and no grpc client-transport goroutine created since the manager was built remains; non-trivial (measured) = Close struck with a call in flight or being issued, or send buffer > 0, or a node never connected; a quarter of the programs add a server-stream correctable with 3-9 (or endless) replies per node and a quorum function that takes 1-20 ms per reply, awaited in Get/Done or Watch (its reply channel is full when Close strikes)",
		Gen:          gen,
		Run:          run,
		TrackCurrent: true,
	})
}
