package peng

import (
	"fmt"
	"regexp"
	"sort"
	"strings"
	"sync/atomic"

	"google.golang.org/grpc/codes"

	"verif/scen"
)

// Violation is a failed oracle clause.
type Violation struct {
	Key string
	Msg string
}

func viol(key, f string, a ...any) *Violation { return &Violation{Key: key, Msg: fmt.Sprintf(f, a...)} }

// hb reports whether op a happens-before op b in the program: same thread and
// earlier, or separated by a barrier.
func hbFunc(c Case) func(a, b int) bool {
	nthreads := c.Threads
	if nthreads < 1 {
		nthreads = 1
	}
	// epoch = number of barriers before the op
	epoch := make([]int, len(c.Ops))
	e := 0
	for i, op := range c.Ops {
		if op.Kind == "barrier" {
			e++
		}
		epoch[i] = e
	}
	return func(a, b int) bool {
		if a == b {
			return false
		}
		if epoch[a] < epoch[b] {
			return true
		}
		return a < b && epoch[a] == epoch[b] && c.Ops[a].Thread%nthreads == c.Ops[b].Thread%nthreads
	}
}

func sigOf(h string) string {
	if i := strings.Index(h, ": "); i >= 0 {
		return h[i+2:]
	}
	return h
}

// CheckHung reports calls that never ended.
func CheckHung(r Result, prop string) *Violation {
	if len(r.Hung) > 0 {
		return viol(prop+"/call-never-ended/"+sigOf(r.Hung[0]), "%d call(s) did not end within 2x%v: %s", len(r.Hung), scen.B, strings.Join(r.Hung, "; "))
	}
	return nil
}

// CheckC03 : per-node FIFO, no duplicate handling, complete delivery.
func CheckC03(c Case, r Result) (*Violation, []string, bool) {
	var classes []string
	if v := CheckHung(r, "C03"); v != nil {
		return v, classes, false
	}
	hb := hbFunc(c)
	callOf := map[uint64]CallInfo{}
	for _, ci := range r.Calls {
		callOf[ci.Token] = ci
	}
	type sc struct{ server, conn int }
	enters := map[sc][]scen.Event{}
	seen := map[string]int{}
	issueT := map[int]int{}
	firstEnter := map[string]int{}
	for _, e := range r.Events {
		if e.Kind == "issue" {
			issueT[e.Call] = e.T
		}
		if e.Kind != "enter" {
			continue
		}
		ci, ok := callOf[e.Token]
		if !ok {
			continue
		}
		k := fmt.Sprintf("%d/%d", e.Server, ci.Idx)
		seen[k]++
		if seen[k] > 1 {
			return viol("C03/duplicate-handler", "server %d started the handler of call %d (%s) twice", e.Server, ci.Idx, ci.Kind), classes, false
		}
		firstEnter[k] = e.T
		enters[sc{e.Server, e.Conn}] = append(enters[sc{e.Server, e.Conn}], e)
	}
	for key, evs := range enters {
		for i := 0; i < len(evs); i++ {
			for j := i + 1; j < len(evs); j++ {
				a, b := callOf[evs[i].Token], callOf[evs[j].Token]
				// evs[i] entered before evs[j]; a violation if b happens-before a
				if hb(b.Idx, a.Idx) {
					return viol("C03/fifo/"+pairKey(b.Kind, a.Kind), "server %d (connection %d) started the handler of call %d (%s, thread %d) before that of call %d (%s, thread %d), which was issued first",
						key.server, key.conn, a.Idx, a.Kind, a.Thread, b.Idx, b.Kind, b.Thread), classes, false
				}
			}
		}
	}
	// complete delivery (unless a stream write was failed on purpose: the stream is then re-created,
	// which fails the calls pending on it - "when ... no connection fails")
	injected := 0
	for _, cl := range r.Clients {
		injected += int(atomic.LoadInt32(&cl.SendsFailed))
	}
	if injected > 0 {
		classes = append(classes, "injected-send-failure")
	}
	if r.Cuts > 0 {
		classes = append(classes, "connection-cut")
		injected += int(r.Cuts)
	}
	straggler := false
	kinds := map[string]bool{}
	for _, ci := range r.Calls {
		kinds[ci.Kind] = true
		for _, s := range ci.Targets {
			k := fmt.Sprintf("%d/%d", s, ci.Idx)
			if seen[k] == 0 && injected > 0 {
				continue
			}
			if seen[k] == 0 {
				return viol("C03/not-handled/"+strings.ToLower(ci.Kind), "server %d never handled call %d (%s) although no context was cancelled and no connection failed", s, ci.Idx, ci.Kind), classes, false
			}
			// straggler: some later call was issued before this server entered this call
			for _, cj := range r.Calls {
				if cj.Idx > ci.Idx {
					if it, ok := issueT[cj.Idx]; ok && it < firstEnter[k] {
						straggler = true
					}
				}
			}
		}
	}
	if straggler {
		classes = append(classes, "straggler-pending-at-later-issue")
	}
	classes = append(classes, fmt.Sprintf("kinds=%d", len(kinds)))
	buf := false
	for _, m := range c.Mgrs {
		if m.SendBuffer > 0 {
			buf = true
		}
	}
	if buf {
		classes = append(classes, "send-buffer")
	}
	if c.Threads > 1 {
		classes = append(classes, "multi-thread")
	}
	return nil, classes, len(kinds) >= 3 || straggler || buf
}

func pairKey(a, b string) string {
	fa, fb := kindFamily(a), kindFamily(b)
	return fa + "-then-" + fb
}

func kindFamily(k string) string {
	switch {
	case scen.IsStream(k):
		return "corrstream"
	case scen.IsCorr(k):
		return "corr"
	case scen.IsAsync(k):
		return "async"
	case scen.IsQC(k):
		return "qc"
	case k == "RPC":
		return "rpc"
	case k == "Unicast":
		return "unicast"
	}
	return "multicast"
}

// CheckC04 : one handler at a time per connection until Release.
func CheckC04(c Case, r Result) (*Violation, []string, bool) {
	var classes []string
	type sc struct{ server, conn int }
	active := map[sc]*scen.Event{}
	overlapObserved := false
	released := map[string]bool{} // server/token released but not exited
	running := map[sc]int{}
	for i := range r.Events {
		e := r.Events[i]
		k := sc{e.Server, e.Conn}
		hk := fmt.Sprintf("%d/%d", e.Server, e.Token)
		switch e.Kind {
		case "enter":
			if a := active[k]; a != nil {
				return viol("C04/concurrent-handlers", "server %d, connection %d: handler of %s (seq %d) started while the handler of %s (seq %d) had neither returned nor released",
					e.Server, e.Conn, e.Method, e.Seq, a.Method, a.Seq), classes, false
			}
			ev := e
			active[k] = &ev
			if running[k] > 0 {
				overlapObserved = true
			}
			running[k]++
		case "release":
			if a := active[k]; a != nil && a.Token == e.Token {
				active[k] = nil
			}
			released[hk] = true
		case "exit":
			if a := active[k]; a != nil && a.Token == e.Token {
				active[k] = nil
			}
			running[k]--
		}
	}
	// a never-releasing handler delays only its own connection: probes from other managers succeed
	for _, p := range r.Probes {
		if p.Hung != "" {
			return viol("C04/other-connection-delayed/"+p.Hung, "probe of manager %d to server %d not answered while another connection's handler is held: %s", p.Mgr, p.Server, p.Hung), classes, false
		}
		if !p.OK {
			return viol("C04/probe-failed", "probe of manager %d to server %d failed: %s", p.Mgr, p.Server, p.Err), classes, false
		}
	}
	if !c.HoldAtEnd {
		if v := CheckHung(r, "C04"); v != nil {
			return v, classes, false
		}
	}
	// replies of released handlers reach their own call
	if v := provenance(c, r, "C04"); v != nil {
		return v, classes, false
	}
	// ... and are not lost: no context ends by itself in these programs and no connection fails, so
	// a call that was not cancelled by the harness fails only with errors its handlers returned
	if v := noForeignFailure(c, r, "C04"); v != nil {
		return v, classes, false
	}
	special := false
	for _, op := range c.Ops {
		for _, b := range op.Behav {
			if b.Release != "" {
				classes = append(classes, "release="+b.Release)
				if b.Release != "early" {
					special = true
				}
			}
		}
	}
	classes = dedup(classes)
	if overlapObserved {
		classes = append(classes, "released-handler-overlaps-later-one")
	}
	if len(c.Mgrs) > 1 {
		classes = append(classes, "several-clients")
	}
	if c.HoldAtEnd {
		classes = append(classes, "never-releasing-handler")
	}
	return nil, classes, overlapObserved || special || len(c.Mgrs) > 1
}

func dedup(in []string) []string {
	sort.Strings(in)
	var out []string
	for i, s := range in {
		if i == 0 || s != in[i-1] {
			out = append(out, s)
		}
	}
	return out
}

// provenance: every reply shown to any quorum function / returned by an RPC
// belongs to that call, sits under the node that produced it, equals what the
// handler produced, never changes and is never shown after the call ended.
func provenance(c Case, r Result, prop string) *Violation {
	callOf := map[uint64]CallInfo{}
	for _, ci := range r.Calls {
		callOf[ci.Token] = ci
	}
	type sk struct {
		server int
		token  uint64
	}
	produced := map[sk][]scen.Event{} // exit / send events with a reply
	for _, e := range r.Events {
		if (e.Kind == "exit" || e.Kind == "send") && e.Serial != 0 {
			produced[sk{e.Server, e.Token}] = append(produced[sk{e.Server, e.Token}], e)
		}
	}
	lastSeen := map[string]scen.RepSnap{}
	for _, e := range r.Events {
		switch e.Kind {
		case "qf-unknown":
			return viol(prop+"/provenance/unknown-call", "a quorum function was invoked with a request (token %d) of no live call", e.Token)
		case "qf":
			ci, ok := callOf[e.Token]
			if !ok {
				continue
			}
			fam := kindFamily(ci.Kind)
			if e.AfterRet {
				return viol(prop+"/provenance/"+fam+"/after-return", "call %d (%s): quorum function invoked after the call had returned", ci.Idx, ci.Kind)
			}
			if e.BadType != "" {
				return viol(prop+"/provenance/"+fam+"/wrong-qf", "call %d: %s", ci.Idx, e.BadType)
			}
			if !scen.IsStream(ci.Kind) && len(e.Replies) != e.N {
				return viol(prop+"/provenance/"+fam+"/delivered-twice", "call %d (%s): invocation %d of the quorum function was shown %d replies (a reply was delivered more than once, or an invocation had no new reply)", ci.Idx, ci.Kind, e.N, len(e.Replies))
			}
			ids := idsOf(r, ci)
			for id, rep := range e.Replies {
				srv := -1
				for s, sid := range ids {
					if sid == id {
						srv = s
					}
				}
				if srv < 0 {
					return viol(prop+"/provenance/"+fam+"/unknown-node", "call %d (%s): reply under unknown node id %d", ci.Idx, ci.Kind, id)
				}
				targeted := false
				for _, s := range ci.Targets {
					if s == srv {
						targeted = true
					}
				}
				if !targeted {
					return viol(prop+"/provenance/"+fam+"/untargeted-node", "call %d (%s): reply under node %d, which the call did not target", ci.Idx, ci.Kind, id)
				}
				if rep.Token != e.Token {
					other := "?"
					if oc, ok := callOf[rep.Token]; ok {
						other = fmt.Sprintf("call %d (%s)", oc.Idx, oc.Kind)
					}
					return viol(prop+"/provenance/"+fam+"/foreign-reply", "call %d (%s) was shown, under node %d, a reply to %s", ci.Idx, ci.Kind, id, other)
				}
				if int(rep.Node) != srv {
					return viol(prop+"/provenance/"+fam+"/wrong-node", "call %d (%s): the entry of node %d (server %d) holds a reply produced by server %d", ci.Idx, ci.Kind, id, srv, rep.Node)
				}
				match := false
				for _, p := range produced[sk{srv, e.Token}] {
					if p.Serial == rep.Serial && p.PayHash == rep.PayHash && p.T < e.T {
						match = true
					}
				}
				if !match {
					return viol(prop+"/provenance/"+fam+"/not-produced", "call %d (%s): the entry of node %d (serial %d) is not a reply its handler had produced", ci.Idx, ci.Kind, id, rep.Serial)
				}
				if !scen.IsStream(ci.Kind) {
					lk := fmt.Sprintf("%d/%d", ci.Idx, id)
					if prev, ok := lastSeen[lk]; ok && prev != rep {
						return viol(prop+"/provenance/"+fam+"/entry-changed", "call %d (%s): the entry of node %d changed between invocations (a second reply was delivered)", ci.Idx, ci.Kind, id)
					}
					lastSeen[lk] = rep
				}
			}
		case "return":
			ci, ok := callOf[e.Token]
			if ok && e.ErrText != "" {
				if v := errorProvenance(r, ci, e, prop); v != nil {
					return v
				}
			}
			if !ok || ci.Kind != "RPC" || e.Outcome != "value" || e.Value == nil {
				continue
			}
			srv := ci.Targets[0]
			if e.Value.Token != e.Token {
				return viol(prop+"/provenance/rpc/foreign-reply", "RPC call %d returned a reply to another call (token %d)", ci.Idx, e.Value.Token)
			}
			if int(e.Value.Node) != srv {
				return viol(prop+"/provenance/rpc/wrong-node", "RPC call %d to server %d returned a reply produced by server %d", ci.Idx, srv, e.Value.Node)
			}
			match := false
			for _, p := range produced[sk{srv, e.Token}] {
				if p.Serial == e.Value.Serial && p.PayHash == e.Value.PayHash {
					match = true
				}
			}
			if !match {
				return viol(prop+"/provenance/rpc/not-produced", "RPC call %d returned a reply its handler had not produced", ci.Idx)
			}
		}
	}
	return nil
}

var (
	nodeErrRe = regexp.MustCompile(`(?m)^\s*node (\d+): (.*)$`)
	stampRe   = regexp.MustCompile(`code = (\w+) desc = .*tok=(\d+) srv=(\d+)`)
)

// errorProvenance checks the handler errors a call reports (handlers stamp their
// errors with the request's token and their server): an error reaches only the
// call whose request caused it, under the node whose handler produced it, with
// the code that handler returned.
func errorProvenance(r Result, ci CallInfo, e scen.Event, prop string) *Violation {
	fam := kindFamily(ci.Kind)
	ids := idsOf(r, ci)
	type ne struct {
		srv  int
		text string
	}
	var errs []ne
	if ci.Kind == "RPC" {
		errs = append(errs, ne{ci.Targets[0], e.ErrText})
	} else {
		for _, m := range nodeErrRe.FindAllStringSubmatch(e.ErrText, -1) {
			var id uint64
			fmt.Sscan(m[1], &id)
			srv := -1
			for s, sid := range ids {
				if uint64(sid) == id {
					srv = s
				}
			}
			if srv < 0 {
				return viol(prop+"/provenance/"+fam+"/error-unknown-node", "call %d (%s): error under unknown node id %d", ci.Idx, ci.Kind, id)
			}
			targeted := false
			for _, s := range ci.Targets {
				if s == srv {
					targeted = true
				}
			}
			if !targeted {
				return viol(prop+"/provenance/"+fam+"/error-untargeted-node", "call %d (%s): error under node %d, which the call did not target: %s", ci.Idx, ci.Kind, id, m[2])
			}
			errs = append(errs, ne{srv, m[2]})
		}
	}
	if ci.Kind != "RPC" && !scen.IsStream(ci.Kind) {
		// at most once per node: a node of a non-streaming call is heard of once, as a reply or as an error
		seen := map[int]bool{}
		for _, x := range errs {
			if seen[x.srv] {
				return viol(prop+"/provenance/"+fam+"/node-failed-twice", "call %d (%s): server %d is listed twice among the call's node errors: %s", ci.Idx, ci.Kind, x.srv, e.ErrText)
			}
			seen[x.srv] = true
		}
		for _, q := range r.Events {
			if q.Kind != "qf" || q.Token != e.Token || q.T > e.T {
				continue
			}
			for id := range q.Replies {
				for s, sid := range ids {
					if sid == id && seen[s] {
						return viol(prop+"/provenance/"+fam+"/reply-and-error", "call %d (%s): server %d is listed among the call's node errors although its reply had been shown to the quorum function: %s", ci.Idx, ci.Kind, s, e.ErrText)
					}
				}
			}
		}
	}
	for _, x := range errs {
		m := stampRe.FindStringSubmatch(x.text)
		if m == nil {
			continue // not a handler error (transport, context, closed)
		}
		var tok uint64
		var srv int
		fmt.Sscan(m[2], &tok)
		fmt.Sscan(m[3], &srv)
		if tok != e.Token {
			return viol(prop+"/provenance/"+fam+"/foreign-error", "call %d (%s) was given, under server %d, the error a handler returned for another request (token %d, server %d): %s", ci.Idx, ci.Kind, x.srv, tok, srv, x.text)
		}
		if srv != x.srv {
			return viol(prop+"/provenance/"+fam+"/error-wrong-node", "call %d (%s): the error under server %d was produced by server %d: %s", ci.Idx, ci.Kind, x.srv, srv, x.text)
		}
		produced := false
		for _, p := range r.Events {
			if p.Kind == "exit" && p.Server == srv && p.Token == tok && p.ErrCode > 0 && p.T < e.T {
				produced = true
				if want := codes.Code(p.ErrCode).String(); want != m[1] {
					return viol(prop+"/provenance/"+fam+"/error-code-changed", "call %d (%s): server %d failed with code %s, the call reports %s", ci.Idx, ci.Kind, srv, want, m[1])
				}
			}
		}
		if !produced {
			return viol(prop+"/provenance/"+fam+"/error-not-produced", "call %d (%s): the error under server %d is not one its handler had returned for this request: %s", ci.Idx, ci.Kind, srv, x.text)
		}
	}
	return nil
}

// CheckC05 : replies reach only the call that asked, under the right node, at most once.
func CheckC05(c Case, r Result) (*Violation, []string, bool) {
	var classes []string
	if v := provenance(c, r, "C05"); v != nil {
		return v, classes, false
	}
	// measured non-triviality: overlapping calls on a shared node; a reply produced after its call ended
	type iv struct {
		from, to int
		targets  []int
	}
	var ivs []iv
	retT := map[uint64]int{}
	issT := map[uint64]int{}
	for _, e := range r.Events {
		if e.Kind == "issue" {
			issT[e.Token] = e.T
		}
		if e.Kind == "return" {
			retT[e.Token] = e.T
		}
	}
	for _, ci := range r.Calls {
		it, ok1 := issT[ci.Token]
		rt, ok2 := retT[ci.Token]
		if ok1 && ok2 {
			ivs = append(ivs, iv{it, rt, ci.Targets})
		}
	}
	overlap := false
	for i := 0; i < len(ivs) && !overlap; i++ {
		for j := i + 1; j < len(ivs) && !overlap; j++ {
			if ivs[i].from < ivs[j].to && ivs[j].from < ivs[i].to {
				for _, a := range ivs[i].targets {
					for _, b := range ivs[j].targets {
						if a == b {
							overlap = true
						}
					}
				}
			}
		}
	}
	late := false
	for _, e := range r.Events {
		if (e.Kind == "exit" || e.Kind == "send") && e.Serial != 0 {
			if rt, ok := retT[e.Token]; ok && rt < e.T {
				late = true
			}
		}
	}
	if overlap {
		classes = append(classes, "overlapping-calls-on-shared-node")
	}
	if late {
		classes = append(classes, "reply-after-call-ended")
	}
	if len(r.Hung) > 0 {
		classes = append(classes, "hung-call-present")
	}
	return nil, classes, overlap || late
}

// noForeignFailure: in a program without context ends, stops, Close and injected faults, a call
// that the harness did not cancel before it returned reports only errors that handlers returned
// (handler errors are stamped with token and server).
func noForeignFailure(c Case, r Result, prop string) *Violation {
	for _, op := range c.Ops {
		switch op.Kind {
		case "stop", "start", "close", "flood", "cut":
			return nil
		case "call":
			if op.CancelUs > 0 || op.Call.Ctx == "deadline" || op.Call.Ctx == "precancelled" || scen.IsUnhandled(op.Call.Kind) {
				return nil
			}
			for _, b := range op.Behav {
				if b.ErrCode > 0 && !b.StampErr || b.PlainErr {
					return nil
				}
			}
		}
	}
	for _, m := range c.Mgrs {
		if len(m.FailSendAt) > 0 || m.MaxSendBytes > 0 {
			return nil
		}
	}
	if len(c.Down) > 0 {
		return nil
	}
	cancelled := map[uint64]bool{}
	callOf := map[uint64]CallInfo{}
	for _, ci := range r.Calls {
		callOf[ci.Token] = ci
	}
	for _, e := range r.Events {
		if e.Kind == "cancel" {
			cancelled[e.Token] = true
		}
		if e.Kind != "return" || e.ErrText == "" || cancelled[e.Token] {
			continue
		}
		ci, ok := callOf[e.Token]
		if !ok {
			continue
		}
		var texts []string
		if ci.Kind == "RPC" {
			texts = []string{e.ErrText}
		} else {
			for _, m := range nodeErrRe.FindAllStringSubmatch(e.ErrText, -1) {
				texts = append(texts, m[2])
			}
		}
		for _, x := range texts {
			if stampRe.FindStringSubmatch(x) == nil {
				return viol(prop+"/reply-lost/"+kindFamily(ci.Kind), "call %d (%s) failed with an error that no handler returned although no context ended and no connection failed: %s", ci.Idx, ci.Kind, x)
			}
		}
	}
	return nil
}
