// Package scen is the behavioural test bed: an in-process bufconn network, a
// cluster of puppet servers whose handlers are scripted per (server, token),
// a recording QuorumSpec, an event log with a logical clock, and hang-aware
// waits (DESIGN.md section 3).
package scen

import (
	"context"
	"errors"
	"fmt"
	"net"
	"sync"
	"time"

	"google.golang.org/grpc/test/bufconn"
)

// Fabric is an in-process network keyed by address string.
type Fabric struct {
	mu        sync.Mutex
	listeners map[string]*bufconn.Listener
	blocked   map[string]chan struct{} // dials to these addresses block until the channel is closed
	dials     map[string]int
	conns     map[string][]net.Conn // client ends of the connections dialled to an address
}

// NewFabric returns an empty network.
func NewFabric() *Fabric {
	return &Fabric{listeners: map[string]*bufconn.Listener{}, blocked: map[string]chan struct{}{}, dials: map[string]int{}, conns: map[string][]net.Conn{}}
}

// Listen registers a listener under addr.
func (f *Fabric) Listen(addr string) net.Listener {
	l := bufconn.Listen(256 * 1024)
	f.mu.Lock()
	f.listeners[addr] = l
	f.mu.Unlock()
	return l
}

// Unlisten removes the listener registered under addr (new dials are refused).
func (f *Fabric) Unlisten(addr string) {
	f.mu.Lock()
	delete(f.listeners, addr)
	f.mu.Unlock()
}

// Block makes dials to addr hang (an unreachable host) until Unblock.
func (f *Fabric) Block(addr string) {
	f.mu.Lock()
	if _, ok := f.blocked[addr]; !ok {
		f.blocked[addr] = make(chan struct{})
	}
	f.mu.Unlock()
}

// Unblock releases dials blocked on addr.
func (f *Fabric) Unblock(addr string) {
	f.mu.Lock()
	if ch, ok := f.blocked[addr]; ok {
		close(ch)
		delete(f.blocked, addr)
	}
	f.mu.Unlock()
}

// UnblockAll releases every blocked dial.
func (f *Fabric) UnblockAll() {
	f.mu.Lock()
	for a, ch := range f.blocked {
		close(ch)
		delete(f.blocked, a)
	}
	f.mu.Unlock()
}

// Reachable reports whether a dial to addr would currently succeed at once.
func (f *Fabric) Reachable(addr string) bool {
	f.mu.Lock()
	defer f.mu.Unlock()
	return f.listeners[addr] != nil && f.blocked[addr] == nil
}

// Dials returns how many dial attempts addr has seen.
func (f *Fabric) Dials(addr string) int {
	f.mu.Lock()
	defer f.mu.Unlock()
	return f.dials[addr]
}

var errRefused = errors.New("connection refused (no listener on the fabric)")

// refusedError is what a dial to an address without a listener returns. It is not temporary
// (grpc.FailOnNonTempDialError makes a blocking dial give up on it at once instead of retrying
// until the dial timeout).
type refusedError struct{ addr string }

func (e refusedError) Error() string   { return "dial " + e.addr + ": " + errRefused.Error() }
func (e refusedError) Unwrap() error   { return errRefused }
func (e refusedError) Temporary() bool { return false }

// Dialer is the grpc context dialer of the fabric.
func (f *Fabric) Dialer(ctx context.Context, addr string) (net.Conn, error) {
	f.mu.Lock()
	f.dials[addr]++
	bl := f.blocked[addr]
	f.mu.Unlock()
	if bl != nil {
		select {
		case <-bl:
		case <-ctx.Done():
			return nil, ctx.Err()
		}
	}
	f.mu.Lock()
	l := f.listeners[addr]
	f.mu.Unlock()
	if l == nil {
		return nil, refusedError{addr}
	}
	c, err := l.DialContext(ctx)
	if err != nil {
		if errors.Is(ctx.Err(), context.DeadlineExceeded) {
			// the listener is there; the attempt's deadline passed before the server got to accept
			noteLoadFault()
		}
		return nil, fmt.Errorf("dial %s: %w", addr, err)
	}
	f.mu.Lock()
	f.conns[addr] = append(f.conns[addr], c)
	f.mu.Unlock()
	return c, nil
}

// Cut closes every connection that was dialled to addr; the listener stays (a connection
// reset underneath a running server). Returns how many were closed.
func (f *Fabric) Cut(addr string) int {
	f.mu.Lock()
	cs := f.conns[addr]
	delete(f.conns, addr)
	f.mu.Unlock()
	for _, c := range cs {
		_ = c.Close()
	}
	return len(cs)
}

// Addr returns the fabric address of server i.
func Addr(i int) string { return fmt.Sprintf("127.0.0.1:%d", 10000+i) }

// small helper used everywhere: wait for a channel with a bound.
func waitCh(ch <-chan struct{}, d time.Duration) bool {
	if d <= 0 {
		select {
		case <-ch:
			return true
		default:
			return false
		}
	}
	t := time.NewTimer(d)
	defer t.Stop()
	select {
	case <-ch:
		return true
	case <-t.C:
		return false
	}
}
