// C19 — node sorters order by their keys.
//
// Generated: slices of bare nodes (ids, ports, last-error pattern from small
// ranges so that ties are common) and a key sequence over {ID, Port,
// LastNodeError}. Oracle: a reference model – OrderedBy(keys...).Sort yields
// a permutation of the input that is ordered lexicographically under the
// model keys (id; numeric port; has-error), and each provided key function is
// a strict weak ordering that agrees with its model key.
package c19

import (
	"errors"
	"fmt"
	"strings"
	"testing"

	"github.com/relab/gorums"
	"pgregory.net/rapid"

	"verif/vt"
)

type Node struct {
	ID   uint32 `json:"id"`
	Host int    `json:"host"` // index into hosts
	Port int    `json:"port"`
	Err  bool   `json:"err"`
	// Conn: the node's channel considers itself connected (with Err: a node that has recovered)
	Conn bool `json:"conn,omitempty"`
}

type Case struct {
	Nodes []Node   `json:"nodes"`
	Keys  []string `json:"keys"`
}

var hosts = []string{"127.0.0.1", "10.0.0.2", "[::1]"}

var keyNames = []string{"ID", "Port", "LastNodeError"}

type lessFn = func(a, b *gorums.RawNode) bool

func keyFn(name string) lessFn {
	switch name {
	case "ID":
		return gorums.ID
	case "Port":
		return gorums.Port
	case "LastNodeError":
		return gorums.LastNodeError
	}
	panic("unknown key " + name)
}

// modelLess is the reference meaning of each key.
func modelLess(name string, a, b Node) bool {
	switch name {
	case "ID":
		return a.ID < b.ID
	case "Port":
		return a.Port < b.Port
	case "LastNodeError":
		return !a.Err && b.Err
	}
	panic("unknown key " + name)
}

func modelLexLess(keys []string, a, b Node) bool {
	for _, k := range keys {
		if modelLess(k, a, b) {
			return true
		}
		if modelLess(k, b, a) {
			return false
		}
	}
	return false
}

func gen(t *rapid.T) Case {
	// ports chosen so that string order and numeric order disagree often
	ports := []int{0, 1, 9, 10, 80, 99, 100, 443, 1000, 8080, 9999, 10000, 65535}
	idGen := rapid.OneOf(rapid.Uint32Range(0, 4), rapid.Uint32Range(0, 4), rapid.Uint32(), rapid.SampledFrom([]uint32{0, 1, 1<<31 - 1, 1 << 31, 1<<32 - 1}))
	nodeGen := rapid.Custom(func(t *rapid.T) Node {
		var port int
		if rapid.IntRange(0, 3).Draw(t, "portKind") == 0 {
			port = rapid.IntRange(0, 65535).Draw(t, "port")
		} else {
			port = rapid.SampledFrom(ports).Draw(t, "port")
		}
		return Node{
			ID:   idGen.Draw(t, "id"),
			Host: rapid.IntRange(0, len(hosts)-1).Draw(t, "host"),
			Port: port,
			Err:  rapid.Bool().Draw(t, "err"),
			Conn: rapid.Bool().Draw(t, "conn"),
		}
	})
	return Case{
		Nodes: rapid.SliceOfN(nodeGen, 0, 40).Draw(t, "nodes"),
		Keys:  rapid.SliceOfN(rapid.SampledFrom(keyNames), 1, 4).Draw(t, "keys"),
	}
}

func run(c Case) vt.Verdict {
	nodes := make([]*gorums.RawNode, len(c.Nodes))
	back := make(map[*gorums.RawNode]Node, len(c.Nodes))
	for i, n := range c.Nodes {
		var err error
		if n.Err {
			err = errors.New("some error")
		}
		nodes[i] = gorums.VerifBareNodeState(n.ID, fmt.Sprintf("%s:%d", hosts[n.Host%len(hosts)], n.Port), err, n.Conn)
		back[nodes[i]] = n
		// the LastNodeError key is documented as sorting nodes by their LastErr() status: the accessor
		// must report exactly the status the key uses
		if got := nodes[i].LastErr() != nil; got != n.Err {
			return vt.Fail("C19/key/LastNodeError/accessor", "node %+v: LastErr() != nil is %v, but the node's last error status (which the LastNodeError key sorts by) is %v", n, got, n.Err)
		}
	}

	// (1) every key function is a strict weak ordering that agrees with its model
	lim := len(nodes)
	if lim > 7 {
		lim = 7
	}
	seenKey := map[string]bool{}
	for _, k := range c.Keys {
		if seenKey[k] {
			continue
		}
		seenKey[k] = true
		f := keyFn(k)
		for i := 0; i < lim; i++ {
			a := nodes[i]
			if f(a, a) {
				return vt.Fail("C19/swo/"+k+"/irreflexive", "%s(a,a) is true for a=%+v", k, back[a])
			}
			for j := 0; j < lim; j++ {
				b := nodes[j]
				if got, want := f(a, b), modelLess(k, back[a], back[b]); got != want {
					return vt.Fail("C19/key/"+k+"/model", "%s(%+v,%+v)=%v, documented meaning gives %v", k, back[a], back[b], got, want)
				}
				if f(a, b) && f(b, a) {
					return vt.Fail("C19/swo/"+k+"/asymmetric", "%s true both ways for %+v,%+v", k, back[a], back[b])
				}
				for l := 0; l < lim; l++ {
					cc := nodes[l]
					if f(a, b) && f(b, cc) && !f(a, cc) {
						return vt.Fail("C19/swo/"+k+"/transitive", "%s not transitive on %+v,%+v,%+v", k, back[a], back[b], back[cc])
					}
					incAB := !f(a, b) && !f(b, a)
					incBC := !f(b, cc) && !f(cc, b)
					incAC := !f(a, cc) && !f(cc, a)
					if incAB && incBC && !incAC {
						return vt.Fail("C19/swo/"+k+"/incomparability", "%s incomparability not transitive on %+v,%+v,%+v", k, back[a], back[b], back[cc])
					}
				}
			}
		}
	}

	// (2) Sort yields an ordered permutation
	fns := make([]lessFn, len(c.Keys))
	for i, k := range c.Keys {
		fns[i] = keyFn(k)
	}
	in := append([]*gorums.RawNode(nil), nodes...)
	// OrderedBy takes the package's unexported func type; the exported key
	// variables have exactly that type, so go through a small adapter.
	sorter := orderedBy(fns)
	sorter.Sort(in)
	if len(in) != len(nodes) {
		return vt.Fail("C19/sort/permutation", "length changed %d -> %d", len(nodes), len(in))
	}
	count := map[*gorums.RawNode]int{}
	for _, n := range nodes {
		count[n]++
	}
	for _, n := range in {
		count[n]--
	}
	for n, k := range count {
		if k != 0 {
			return vt.Fail("C19/sort/permutation", "node %+v multiplicity off by %d", back[n], k)
		}
	}
	for i := 0; i+1 < len(in); i++ {
		a, b := back[in[i]], back[in[i+1]]
		if modelLexLess(c.Keys, b, a) {
			return vt.Fail("C19/sort/order/"+strings.Join(dedupPrefix(c.Keys), ","), "keys %v: %+v placed before %+v", c.Keys, a, b)
		}
	}

	// classification
	tie := false
	if len(c.Keys) >= 2 {
		k0 := c.Keys[0]
	outer:
		for i := range c.Nodes {
			for j := i + 1; j < len(c.Nodes); j++ {
				if !modelLess(k0, c.Nodes[i], c.Nodes[j]) && !modelLess(k0, c.Nodes[j], c.Nodes[i]) {
					tie = true
					break outer
				}
			}
		}
	}
	classes := []string{fmt.Sprintf("keys=%d", len(c.Keys)), "first=" + c.Keys[0]}
	if tie {
		classes = append(classes, "first-key-tie")
	}
	if len(c.Nodes) == 0 {
		classes = append(classes, "empty")
	}
	return vt.Pass(tie, classes...)
}

func dedupPrefix(keys []string) []string {
	// the signature keeps the key sequence up to the first repetition
	var out []string
	seen := map[string]bool{}
	for _, k := range keys {
		if seen[k] {
			break
		}
		seen[k] = true
		out = append(out, k)
	}
	return out
}

func TestProp(t *testing.T) {
	vt.Main(t, vt.Spec[Case]{
		ID:   "C19",
		Rule: "rapid-generated slices of 0-40 bare nodes (ids/ports from small pools so ties are common, random last-error pattern) x key sequences of length 1-4 over {ID,Port,LastNodeError}; non-trivial = at least 2 keys and the first key has a tie in the slice; distinct = distinct canonical JSON encoding of the case",
		Gen:  gen,
		Run:  run,
	})
}

func orderedBy(f []lessFn) *gorums.MultiSorter {
	switch len(f) {
	case 1:
		return gorums.OrderedBy(f[0])
	case 2:
		return gorums.OrderedBy(f[0], f[1])
	case 3:
		return gorums.OrderedBy(f[0], f[1], f[2])
	case 4:
		return gorums.OrderedBy(f[0], f[1], f[2], f[3])
	}
	panic("unsupported number of keys")
}
