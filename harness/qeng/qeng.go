// Package qeng runs one scripted two-way call (quorum call, async, or
// correctable) against a puppet cluster: per node a reply / error / silence /
// outage, an arrival order realised by opening handler gates one at a time,
// a context end at a generated position, optional background calls. It
// returns the recorded history; the per-property oracles are in oracle.go.
package qeng

import (
	"fmt"
	"time"

	"verif/scen"
)

// NodePlan says what a targeted server does for the subject call.
type NodePlan struct {
	// Kind: reply | error | silent | down (never started) | replyerr (reply and error)
	Kind    string `json:"kind"`
	ErrCode int    `json:"err_code,omitempty"`
	ErrMsg  string `json:"err_msg,omitempty"`
	Plain   bool   `json:"plain,omitempty"` // non-status Go error
	Payload int    `json:"payload,omitempty"`
	Release string `json:"release,omitempty"`
}

// Step is one step of the script after the call has been issued.
type Step struct {
	// Op: answer (open the gate of Node) | cancel | stop (stop server Node) | partition (cut the connections to server Node and let new attempts hang) | bg (issue background call Node) | sleep
	Op   string `json:"op"`
	Node int    `json:"node,omitempty"`
	Us   int    `json:"us,omitempty"`
}

// Case is one generated history.
type Case struct {
	N     int              `json:"n"`
	Mgr   scen.MgrOpts     `json:"mgr"`
	Cfg   []int            `json:"cfg"` // servers of the subject configuration
	Call  scen.CallSpec    `json:"call"`
	Nodes map[int]NodePlan `json:"nodes"`
	Steps []Step           `json:"steps"`
	Bg    []scen.CallSpec  `json:"bg,omitempty"`
	BgCfg [][]int          `json:"bg_cfg,omitempty"`
	Gets  int              `json:"gets,omitempty"` // async: number of concurrent Get observers after completion
	// PreStop lists servers stopped after the manager has connected but before the call is issued
	PreStop []int `json:"pre_stop,omitempty"`
	RecvBu  uint  `json:"recv_buffer,omitempty"`
}

// Result is what a run produced.
type Result struct {
	Events     []scen.Event
	Token      uint64
	Targets    []int
	IDs        []uint32
	Subject    *scen.Call
	Hung       string // hang signature if the call did not end although it had to
	Late       bool
	EarlyDone  string // async: Done() observed true although no end condition held
	GetDiffer  string // async: Get() results differ between invocations
	Pending    bool   // the call was legitimately pending at the end of the script
	PendingRet bool   // ... but had returned although no end condition held
	SetupErr   string
	CloseHung  bool
}

func (c Case) plan(s int) NodePlan {
	if p, ok := c.Nodes[s]; ok {
		return p
	}
	return NodePlan{Kind: "reply"}
}

// Run executes the case.
func Run(c Case) Result {
	var res Result
	cl := scen.NewCluster(c.N, c.RecvBu)
	defer cl.Shutdown()
	for i := 0; i < c.N; i++ {
		if c.plan(i).Kind != "down" {
			cl.Start(i)
		}
	}
	client, err := scen.NewClient(cl, c.Mgr)
	if err != nil {
		res.SetupErr = "manager/configuration: " + err.Error()
		return res
	}
	defer func() {
		cl.OpenAll()
		cl.Fab.UnblockAll()
		for _, call := range client.Calls() {
			call.Cancel()
		}
		if !client.Close(scen.B) {
			res.CloseHung = true
		}
	}()
	res.IDs = client.IDs
	cfgIdx := 0
	if !scen.IsNodeCall(c.Call.Kind) {
		cfgIdx, err = client.AddConfig(c.Cfg)
		if err != nil {
			res.SetupErr = "subject configuration: " + err.Error()
			return res
		}
	}
	base := scen.NewTokens(2 + len(c.Bg))
	spec := c.Call
	spec.Config = cfgIdx
	subject := client.NewCall(0, base, 1, spec)
	res.Subject, res.Token, res.Targets = subject, base, subject.Targets
	for s := 0; s < c.N; s++ {
		p := c.plan(s)
		b := scen.Behaviour{Gate: true, Payload: p.Payload, Release: p.Release}
		switch p.Kind {
		case "error":
			b.ErrCode, b.ErrMsg, b.PlainErr = p.ErrCode, p.ErrMsg, p.Plain
		case "replyerr":
			b.ErrCode, b.ErrMsg, b.WithReply = p.ErrCode, p.ErrMsg, true
		}
		if scen.IsStream(spec.Kind) {
			// one reply per node, then the handler returns (error or nil)
			if p.Kind == "reply" || p.Kind == "replyerr" {
				b.Stream = []scen.StreamItem{{Level: 1}}
			}
		}
		cl.SetBehaviour(s, base, b)
	}
	// background calls
	var bgs []*scen.Call
	for i, bs := range c.Bg {
		bi := 0
		if !scen.IsNodeCall(bs.Kind) && i < len(c.BgCfg) && len(c.BgCfg[i]) > 0 {
			bi, err = client.AddConfig(c.BgCfg[i])
			if err != nil {
				res.SetupErr = "background configuration: " + err.Error()
				return res
			}
		}
		bs.Config = bi
		bgs = append(bgs, client.NewCall(1+i, base+1+uint64(i), uint64(2+i), bs))
	}
	nbg := 0
	issueBg := func() {
		if nbg < len(bgs) {
			b := bgs[nbg]
			nbg++
			go b.Issue()
		}
	}
	// half of the background calls start before the subject
	for i := 0; i < (len(bgs)+1)/2; i++ {
		issueBg()
	}

	stopped := map[int]bool{}
	for _, s := range c.PreStop {
		if cl.Up(s) {
			stopped[s] = true
			cl.Stop(s)
		}
	}
	if len(c.PreStop) > 0 {
		time.Sleep(300 * time.Microsecond)
	}

	go subject.Issue()

	log := cl.Log
	live := map[int]bool{}
	for _, s := range subject.Targets {
		if c.plan(s).Kind != "down" && !stopped[s] {
			live[s] = true
		}
	}
	ctxEnds := spec.Ctx == "precancelled" || spec.Ctx == "deadline"
	// wait until every live targeted server has entered the handler (or the call is over)
	enteredAll := func(evs []scen.Event) bool {
		n := 0
		for _, e := range evs {
			if e.Kind == "enter" && e.Token == base && live[e.Server] {
				n++
			}
			if e.Kind == "return" && e.Token == base {
				return true
			}
		}
		return n >= len(live)
	}
	wait := 2 * time.Second
	if ctxEnds {
		wait = 20 * time.Millisecond
	}
	log.WaitFor(wait, enteredAll)

	cancelled := spec.Ctx == "precancelled"
	answered := map[int]bool{}
	async := scen.IsAsync(spec.Kind)
	checkEarlyDone := func(where string) {
		if !async || res.EarlyDone != "" {
			return
		}
		select {
		case <-subject.IssuedCh():
		default:
			return
		}
		if subject.Async == nil || !subject.Async.Done() {
			return
		}
		if endCondition(c, log.Snapshot(), base, subject.Targets, cancelled || subject.Ctx().Err() != nil, stopped) == "" {
			res.EarlyDone = "Done() reported true " + where + " although no quorum was reported, not every node had answered and the context was live"
		}
	}
	for si, st := range c.Steps {
		checkEarlyDone(fmt.Sprintf("before step %d", si))
		switch st.Op {
		case "answer":
			s := st.Node
			if answered[s] {
				continue
			}
			answered[s] = true
			before := log.Len()
			cl.Open(s, base, -1)
			if !live[s] || stopped[s] {
				continue
			}
			p := c.plan(s)
			// wait for the observable effect: a new quorum-function invocation for a
			// reply, the handler's exit (plus a short settle) for an error
			if p.Kind == "reply" {
				log.WaitFor(500*time.Millisecond, func(evs []scen.Event) bool {
					if subject.Returned() {
						return true
					}
					for _, e := range evs[min(before, len(evs)):] {
						if e.Token == base && (e.Kind == "qf" || e.Kind == "return") {
							return true
						}
					}
					return false
				})
			} else {
				log.WaitFor(500*time.Millisecond, func(evs []scen.Event) bool {
					if subject.Returned() {
						return true
					}
					for _, e := range evs[min(before, len(evs)):] {
						if e.Token == base && ((e.Kind == "exit" && e.Server == s) || e.Kind == "return") {
							return true
						}
					}
					return false
				})
				if !subject.Returned() {
					time.Sleep(400 * time.Microsecond)
				}
			}
		case "cancel":
			if spec.Ctx == "cancel" && !cancelled {
				cancelled = true
				subject.Cancel()
				r, _ := scen.Await(subject.DoneCh(), 500*time.Millisecond)
				_ = r
			}
		case "stop":
			s := st.Node
			if !stopped[s] && cl.Up(s) {
				stopped[s] = true
				cl.Stop(s)
				time.Sleep(400 * time.Microsecond)
			}
		case "partition":
			// the node's host stops answering: the connection breaks and new attempts hang
			s := st.Node
			if !stopped[s] && cl.Up(s) {
				stopped[s] = true
				cl.Partition(s)
				time.Sleep(400 * time.Microsecond)
			}
		case "bg":
			issueBg()
		case "sleep":
			time.Sleep(time.Duration(st.Us) * time.Microsecond)
		}
	}
	for nbg < len(bgs) {
		issueBg()
	}
	checkEarlyDone("after the script")

	// Must the call be over now?
	if spec.Ctx == "deadline" {
		// let the deadline pass (deadlines are at most a few ms)
		<-subject.Ctx().Done()
	}
	evs := log.Snapshot()
	why := endCondition(c, evs, base, subject.Targets, subject.Ctx().Err() != nil, stopped)
	if why != "" {
		r, sig := scen.Await(subject.DoneCh(), scen.B)
		switch r {
		case scen.Hung:
			res.Hung = sig + " [end condition: " + why + "]"
		case scen.Late:
			res.Late = true
		}
	} else {
		// legitimately pending: it must not have returned
		res.Pending = true
		time.Sleep(time.Millisecond)
		if subject.Returned() {
			// re-evaluate on a fresh snapshot (an answer may have been in flight)
			if endCondition(c, log.Snapshot(), base, subject.Targets, subject.Ctx().Err() != nil, stopped) == "" {
				res.PendingRet = true
			}
		}
		// now end it: cancel if possible, else let every node answer
		if spec.Ctx == "cancel" {
			subject.Cancel()
		} else {
			cl.OpenAll()
		}
		r, sig := scen.Await(subject.DoneCh(), scen.B)
		if r == scen.Hung {
			res.Hung = sig + " [after ending a pending call]"
		} else if r == scen.Late {
			res.Late = true
		}
	}
	// async: repeated and concurrent Get
	if async && subject.Returned() && subject.Async != nil {
		res.GetDiffer = observeGets(subject, c.Gets)
	}
	// let background calls finish
	cl.OpenAll()
	for _, b := range bgs {
		select {
		case <-b.DoneCh():
		case <-time.After(20 * time.Millisecond):
			b.Cancel()
			scen.Await(b.DoneCh(), 2*time.Second)
		}
	}
	res.Events = log.Snapshot()
	return res
}

// endCondition returns a non-empty reason if, on the given history, the
// subject call must be over: a quorum was reported (Q), every targeted node
// has answered or is down (X), or the context has ended (C).
func endCondition(c Case, evs []scen.Event, token uint64, targets []int, ctxEnded bool, stopped map[int]bool) string {
	if ctxEnded {
		return "context ended"
	}
	exited := map[int]bool{}
	for _, e := range evs {
		if e.Token != token {
			continue
		}
		if e.Kind == "qf" && e.Done {
			return "quorum reported"
		}
		if e.Kind == "exit" {
			exited[e.Server] = true
		}
	}
	if scen.IsStream(c.Call.Kind) {
		// a server-stream correctable ends by exhaustion only when every node FAILED
		for _, s := range targets {
			p := c.plan(s)
			failed := p.Kind == "down" || stopped[s] || (exited[s] && (p.Kind == "error" || p.Kind == "replyerr"))
			if !failed {
				return ""
			}
		}
		return "every node failed"
	}
	for _, s := range targets {
		if c.plan(s).Kind == "down" || stopped[s] || exited[s] {
			continue
		}
		return ""
	}
	return "every targeted node answered"
}

func min(a, b int) int {
	if a < b {
		return a
	}
	return b
}
