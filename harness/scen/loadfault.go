package scen

import (
	"fmt"
	"os"
	"strings"
	"sync/atomic"

	"google.golang.org/grpc/grpclog"

	"verif/vt"
)

// Load faults. gorums hands its reconnection back-off to grpc as ConnectParams
// without a MinConnectTimeout, so every connection attempt gets the back-off
// delay (20 ms in most generated managers) as its connect deadline. On a machine
// that is too busy to finish a dial and an HTTP/2 handshake in that time the
// transport aborts attempts to perfectly reachable servers - and, because the
// deadline monitor of grpc's newHTTP2Client races with the function's return, it
// occasionally closes a connection that has just been established, which breaks
// the node's stream a moment later. Neither is a fault the case injected, and no
// oracle can be exact about a case in which they happened. They are counted here
// (from the fabric's dialer and from grpc's own log) and vt treats a failing
// verdict of such a case as inconclusive.
var loadFaults int64
var loadFaultSeen int64

// LoadFaults returns the number of aborted connection attempts so far.
func LoadFaults() int64 { return atomic.LoadInt64(&loadFaults) }

func noteLoadFault() { atomic.AddInt64(&loadFaults, 1) }

type glog struct{}

func scan(s string) {
	if strings.Contains(s, "Aborting due to connect deadline expiring") ||
		(strings.Contains(s, "failed to connect to") && strings.Contains(s, "deadline exceeded")) {
		noteLoadFault()
	}
}

func (glog) Info(a ...any)               { scan(fmt.Sprint(a...)) }
func (glog) Infoln(a ...any)             { scan(fmt.Sprint(a...)) }
func (glog) Infof(f string, a ...any)    { scan(fmt.Sprintf(f, a...)) }
func (glog) Warning(a ...any)            { scan(fmt.Sprint(a...)) }
func (glog) Warningln(a ...any)          { scan(fmt.Sprint(a...)) }
func (glog) Warningf(f string, a ...any) { scan(fmt.Sprintf(f, a...)) }
func (glog) Error(a ...any)              { scan(fmt.Sprint(a...)) }
func (glog) Errorln(a ...any)            { scan(fmt.Sprint(a...)) }
func (glog) Errorf(f string, a ...any)   { scan(fmt.Sprintf(f, a...)) }
func (glog) Fatal(a ...any)              { fmt.Fprintln(os.Stderr, a...); os.Exit(1) }
func (glog) Fatalln(a ...any)            { fmt.Fprintln(os.Stderr, a...); os.Exit(1) }
func (glog) Fatalf(f string, a ...any)   { fmt.Fprintf(os.Stderr, f+"\n", a...); os.Exit(1) }
func (glog) V(l int) bool                { return l <= 2 }

func init() {
	grpclog.SetLoggerV2(glog{})
	vt.Spoiled = func() string {
		n := LoadFaults()
		old := atomic.SwapInt64(&loadFaultSeen, n)
		if n != old {
			return fmt.Sprintf("%d connection attempt(s) to reachable servers were aborted by their connect deadline while the case ran (machine too busy)", n-old)
		}
		return ""
	}
}
