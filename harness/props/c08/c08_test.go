// C08 — every call returns promptly once its context ends, whatever the nodes are doing.
package c08

import (
	"fmt"
	"strings"
	"testing"

	"pgregory.net/rapid"

	"verif/peng"
	"verif/scen"
	"verif/vt"
)

// genBlockingDial: a manager that dials with grpc.WithBlock and a dial timeout far beyond the hang
// bound, a node that has been down since the manager was created and whose address then stops
// answering connection attempts at all, and two to four calls in a row on that node with short
// deadlines: while the node's sender is inside the blocking dial for one request, the next call is
// made. Every call returns when its context ends, not when the dial gives up. (The manager is
// created with grpc.FailOnNonTempDialError, so creation does not cost a dial timeout.)
func genBlockingDial(t *rapid.T) peng.Case {
	n := rapid.IntRange(1, 2).Draw(t, "n")
	c := peng.Case{N: n, CtxCheck: true, Threads: 1, Down: []int{0}}
	c.Mgrs = []scen.MgrOpts{{WithBlock: true, FailFastDial: true, DialTimeoutMs: 70000, BackoffMs: 70000, SendBuffer: rapid.SampledFrom([]uint{0, 2}).Draw(t, "sendBuffer")}}
	c.Configs = [][]int{{0}}
	c.Ops = append(c.Ops, peng.Op{Kind: "blockdial", Thread: 0, Call: scen.CallSpec{Node: 0}})
	k := rapid.IntRange(2, 4).Draw(t, "ncalls")
	for i := 0; i < k; i++ {
		kind := rapid.SampledFrom([]string{"RPC", "QC", "Async", "Corr", "CorrStream", "Unicast", "Multicast", "QCPerNode"}).Draw(t, fmt.Sprintf("kind%d", i))
		op := peng.Op{Kind: "call", Thread: 0, Behav: map[int]scen.Behaviour{}}
		op.Call = scen.CallSpec{Kind: kind, Node: 0, Config: rapid.IntRange(0, 1).Draw(t, fmt.Sprintf("cfg%d", i)), Ctx: "deadline",
			DeadlineUs: rapid.SampledFrom([]int{20000, 100000, 300000}).Draw(t, fmt.Sprintf("dl%d", i)), Script: scen.QScript{Kind: "threshold", Q: 1}}
		if scen.IsOneWay(kind) {
			op.Call.NoSendWait = rapid.Bool().Draw(t, fmt.Sprintf("nsw%d", i))
		}
		op.Await = true
		c.Ops = append(c.Ops, op)
	}
	return c
}

func gen(t *rapid.T) peng.Case {
	if rapid.IntRange(0, 79).Draw(t, "blockingDialShape") == 0 {
		return genBlockingDial(t)
	}
	b := peng.Bias{MinN: 1, MaxN: 4, MaxThreads: 5, MinOps: 2, MaxOps: 18, MaxMgrs: 1, Kinds: scen.AllKinds, Barriers: false,
		Cancel: true, MaxSleepUs: 4000, StreamItems: 3, AwaitProb: 3, ErrorNodes: true, FullQuorum: true, ReleaseModes: []string{"", "early"}}
	c := peng.GenShape(t, b)
	c.CtxCheck = true
	c.Jitter = peng.GenJitter(t)
	// node states
	state := make([]string, c.N)
	for s := 0; s < c.N; s++ {
		state[s] = rapid.SampledFrom([]string{"ok", "ok", "down", "never-answering", "not-reading", "not-reading+flood"}).Draw(t, fmt.Sprintf("state%d", s))
		if state[s] == "down" {
			c.Down = append(c.Down, s)
		}
	}
	// blockers first: a held handler that did not release stops the server reading that connection
	for s := 0; s < c.N; s++ {
		if strings.HasPrefix(state[s], "not-reading") {
			op := peng.Op{Kind: "call", Thread: 0, Behav: map[int]scen.Behaviour{s: {Gate: true}}}
			op.Call = scen.CallSpec{Kind: "Unicast", Node: s, Ctx: "cancel", NoSendWait: true}
			c.Ops = append(c.Ops, op)
		}
		if state[s] == "not-reading+flood" {
			op := peng.Op{Kind: "flood", Thread: 0, Us: rapid.SampledFrom([]int{150, 400, 1200}).Draw(t, fmt.Sprintf("floodN%d", s))}
			op.Call = scen.CallSpec{Node: s, Payload: rapid.SampledFrom([]int{1500, 6000}).Draw(t, fmt.Sprintf("floodP%d", s))}
			// a third of the floods are multicasts to all nodes (with a context that lives on): the caller
			// is then stuck handing a message to the node that does not read
			op.Call.Kind = rapid.SampledFrom([]string{"", "", "Multicast"}).Draw(t, fmt.Sprintf("floodKind%d", s))
			c.Ops = append(c.Ops, op)
		}
	}
	if len(c.Ops) > 0 {
		c.Ops = append(c.Ops, peng.Op{Kind: "barrier"})
	}
	nops := rapid.IntRange(b.MinOps, b.MaxOps).Draw(t, "nops")
	for i := 0; i < nops; i++ {
		op := peng.GenCall(t, c, b, 100+i)
		// every subject call has a context that ends
		if op.Call.Ctx == "background" || (op.Call.Ctx == "cancel" && op.CancelUs == 0) {
			if rapid.Bool().Draw(t, fmt.Sprintf("dl%d", i)) {
				op.Call.Ctx, op.Call.DeadlineUs = "deadline", rapid.SampledFrom([]int{1, 100, 500, 2000, 5000}).Draw(t, fmt.Sprintf("dlUs%d", i))
			} else {
				op.Call.Ctx, op.CancelUs = "cancel", rapid.SampledFrom([]int{1, 50, 300, 1000, 3000}).Draw(t, fmt.Sprintf("cUs%d", i))
			}
		}
		if rapid.IntRange(0, 9).Draw(t, fmt.Sprintf("pre%d", i)) == 0 {
			op.Call.Ctx, op.CancelUs, op.Call.DeadlineUs = "precancelled", 0, 0
		}
		// a server stream that never stops, consumed by a slow quorum function that never reports done:
		// the reply channel of the call is never empty when its context ends
		if scen.IsStream(op.Call.Kind) && rapid.IntRange(0, 2).Draw(t, fmt.Sprintf("endless%d", i)) == 0 {
			for s := range op.Behav {
				op.Behav[s] = scen.Behaviour{Release: "early", StreamEndless: true, Stream: []scen.StreamItem{{Level: 1}}}
			}
			op.Call.Script = scen.QScript{Kind: "never", SlowUs: rapid.SampledFrom([]int{300, 1000, 2500}).Draw(t, fmt.Sprintf("endlessSlow%d", i))}
			if op.Call.Ctx == "precancelled" {
				op.Call.Ctx, op.CancelUs = "cancel", 3000
			}
			if op.Call.Ctx == "deadline" && op.Call.DeadlineUs < 2000 {
				op.Call.DeadlineUs = 4000
			}
			if op.Call.Ctx == "cancel" && op.CancelUs < 2000 {
				op.CancelUs = 4000
			}
		}
		// handlers of never-answering nodes release and then hold
		for s := 0; s < c.N; s++ {
			if state[s] == "never-answering" {
				if _, ok := op.Behav[s]; ok || true {
					op.Behav[s] = scen.Behaviour{Gate: true, Release: "early"}
				}
			}
		}
		c.Ops = append(c.Ops, op)
	}
	return c
}

func run(c peng.Case) vt.Verdict {
	r := peng.Run(c, peng.Hooks{})
	if r.SetupErr != "" {
		return vt.Verdict{OK: true, Inconclusive: true, Msg: r.SetupErr, Classes: []string{"setup-error"}}
	}
	var classes []string
	flood, notReading, down, never := false, false, len(c.Down) > 0, false
	for _, op := range c.Ops {
		if op.Kind == "flood" {
			flood = true
		}
		for _, b := range op.Behav {
			if b.Gate && b.Release == "" {
				notReading = true
			}
			if b.Gate && b.Release == "early" {
				never = true
			}
		}
	}
	if flood {
		classes = append(classes, "flooded-non-reading-node")
	}
	if notReading {
		classes = append(classes, "non-reading-node")
	}
	if down {
		classes = append(classes, "down-node")
	}
	if len(c.Mgrs) > 0 && c.Mgrs[0].WithBlock && c.Mgrs[0].DialTimeoutMs > 20000 {
		classes = append(classes, "blocking-dial-that-hangs")
	}
	if never {
		classes = append(classes, "never-answering-node")
	}
	for _, op := range c.Ops {
		for _, b := range op.Behav {
			if b.StreamEndless {
				flood = true
				classes = append(classes, "endless-stream-slow-qf")
			}
		}
	}
	if len(r.HungCtx) > 0 {
		h := r.HungCtx[0]
		sig := h
		if i := strings.Index(h, ": "); i >= 0 {
			sig = h[i+2:]
		}
		kind := strings.Fields(h)[2]
		kind = strings.TrimSuffix(kind, ":")
		return vt.Verdict{OK: false, Key: "C08/not-returned/" + fam(kind) + "/" + sig, History: r.Events, Classes: classes,
			Msg: fmt.Sprintf("%d call(s) had not returned 2x%v after their context ended: %s", len(r.HungCtx), scen.B, strings.Join(r.HungCtx, "; "))}
	}
	// error class
	unfinished := false
	for _, e := range r.Events {
		if e.Kind != "return" || e.Outcome != "error" || !strings.HasPrefix(e.Note, "ctx:") || e.IsCtx || e.Call >= 10000 {
			continue
		}
		low := strings.ToLower(e.ErrText)
		if strings.Contains(low, "context canceled") || strings.Contains(low, "context deadline exceeded") || strings.Contains(low, "code = canceled") || strings.Contains(low, "code = deadlineexceeded") ||
			strings.Contains(e.ErrText, scen.ErrCause.Error()) {
			return vt.Verdict{OK: false, Key: "C08/ctx-error-mismatch/" + fam(e.Method), History: r.Events, Classes: classes,
				Msg: fmt.Sprintf("call %d (%s) ended because its context ended (%s) but its error does not match the context's error under errors.Is: %q", e.Call, e.Method, e.Note, firstLine(e.ErrText))}
		}
	}
	// measured non-triviality: a context ended while its call was not finished and a node was misbehaving
	cancelT := map[uint64]int{}
	for _, e := range r.Events {
		if e.Kind == "cancel" {
			if _, ok := cancelT[e.Token]; !ok {
				cancelT[e.Token] = e.T
			}
		}
		if e.Kind == "return" {
			if ct, ok := cancelT[e.Token]; ok && ct < e.T {
				unfinished = true
			}
			if strings.HasPrefix(e.Note, "ctx:context deadline") && (e.IsDead || e.IsCanc) {
				unfinished = true
			}
		}
	}
	if unfinished {
		classes = append(classes, "ctx-ended-while-unfinished")
	}
	res := vt.Pass(unfinished && (flood || notReading || down || never), classes...)
	res.Inconclusive = r.Late
	return res
}

func fam(kind string) string {
	switch {
	case scen.IsStream(kind):
		return "corrstream"
	case scen.IsCorr(kind):
		return "corr"
	case scen.IsAsync(kind):
		return "async"
	case scen.IsQC(kind):
		return "qc"
	}
	return strings.ToLower(kind)
}

func firstLine(s string) string {
	if i := strings.Index(s, "\n"); i >= 0 {
		return s[:i]
	}
	return s
}

func TestProp(t *testing.T) {
	vt.Main(t, vt.Spec[peng.Case]{
		ID:           "C08",
		Rule:         "rapid-generated cases: 1-4 nodes each in a generated state (healthy, down from the start, never answering = handler released and held, not reading = handler held without Release so the server stops reading the connection, not reading + a flood of 150-1200 background one-way messages of 1.5-6 KB - unicasts, or in a third of the floods multicasts to all nodes, with a context that lives on - that exhausts the flow-control window); 2-18 subject calls of all 20 kinds from 1-5 threads, every one with a context that ends (cancel after 1 us - 3 ms, deadline 1 us - 5 ms, pre-cancelled), send buffer 0/1/2/8; server-stream calls in 1 of 3 cases against endless streams with a slow quorum function that never reports done; in half of the cases seeded jitter at the statement-level yield points of the instrumented runtime; while the nodes still misbehave, every call whose context has ended must have returned / completed within the hang bound (confirmed by two goroutine dumps 10 s apart), and an error caused by the context end must match the context's error under errors.Is; non-trivial (measured) = a context ended while its call was unfinished and some node was down / not answering / not reading; a further shape (about a tenth of the cases): a manager that dials with grpc.WithBlock (70 s dial timeout, created with FailOnNonTempDialError), a node that is down and whose address then stops answering connection attempts, and 2-4 calls with 20-300 ms deadlines in a row on it - calls made while the sender is inside the hanging dial return when their context ends",
		Gen:          gen,
		Run:          run,
		TrackCurrent: true,
	})
}
