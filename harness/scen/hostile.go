package scen

import (
	"sync/atomic"

	"github.com/relab/gorums"
	"github.com/relab/gorums/ordering"
	"google.golang.org/grpc"

	"verif/puppet"
)

// RawCodec passes byte slices through; it is named like the gorums codec so that the peer
// decodes (and encodes) with the real one.
type RawCodec struct{}

func (RawCodec) Marshal(v any) ([]byte, error) { return *(v.(*[]byte)), nil }
func (RawCodec) Unmarshal(b []byte, v any) error {
	*(v.(*[]byte)) = append([]byte(nil), b...)
	return nil
}
func (RawCodec) Name() string { return gorums.ContentSubtype }

// HostileServer is a raw grpc server without gorums code on its side of the wire, listening
// at the fabric address of server 0. Answer decides what it writes back for the n-th request
// (n counts from 1) it could decode; nil = the well-formed reply of a puppet handler.
type HostileServer struct {
	gs   *grpc.Server
	Reqs int32
}

// WellFormedReply is the reply frame a healthy puppet server would send.
func WellFormedReply(req *gorums.Message) []byte {
	var tok uint64
	if r, ok := req.Message.(*puppet.Req); ok {
		tok = r.GetToken()
	}
	out, err := gorums.NewCodec().Marshal(&gorums.Message{Metadata: &ordering.Metadata{MessageID: req.Metadata.GetMessageID(), Method: req.Metadata.GetMethod()},
		Message: &puppet.Rep{Token: tok}})
	if err != nil {
		return nil
	}
	return out
}

// StartHostileServer starts the server; stop it with Stop.
func StartHostileServer(cl *Cluster, answer func(n int32, req *gorums.Message) [][]byte) *HostileServer {
	h := &HostileServer{}
	lis := cl.Fab.Listen(Addr(0))
	h.gs = grpc.NewServer(grpc.ForceServerCodec(RawCodec{}), grpc.UnknownServiceHandler(func(_ any, st grpc.ServerStream) error {
		codec := gorums.NewCodec()
		for {
			var b []byte
			if err := st.RecvMsg(&b); err != nil {
				return err
			}
			req := gorums.VerifNewMessage(false)
			if err := codec.Unmarshal(b, req); err != nil {
				continue
			}
			n := atomic.AddInt32(&h.Reqs, 1)
			frames := answer(n, req)
			if frames == nil {
				if f := WellFormedReply(req); f != nil {
					frames = [][]byte{f}
				}
			}
			for _, f := range frames {
				f := append([]byte(nil), f...)
				if err := st.SendMsg(&f); err != nil {
					return err
				}
			}
		}
	}))
	go func() { _ = h.gs.Serve(lis) }()
	return h
}

// Stop stops the server.
func (h *HostileServer) Stop() { h.gs.Stop() }
