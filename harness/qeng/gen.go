package qeng

import (
	"fmt"

	"pgregory.net/rapid"

	"verif/scen"
)

// Bias tunes the generator for a property.
type Bias struct {
	Kinds       []string // call kinds to draw from
	MaxN        int      // max servers
	AllowDown   bool     // nodes that are never started
	AllowStop   bool     // stop steps
	AllowSilent bool
	AllowCtx    bool // cancellations / deadlines
	ZeroTargets bool // per-node functions that skip every node
	Background  bool
	AllCodes    bool // all 16 status codes for handler errors
}

var qcKinds = []string{"QC", "QCPerNode", "QCCustom", "QCCombo", "Async", "AsyncPerNode", "AsyncCustom", "AsyncCombo"}

// QCKinds are the quorum-call and async kinds.
func QCKinds() []string { return append([]string(nil), qcKinds...) }

var errMsgs = []string{"boom", "", "no such key", "déjà vu ☃", "line1\nline2", "node 7: fake", "a very long message that goes on and on and on and on and on and on and on and on",
	// texts that only survive if nobody uses them as a format string
	"disk 100% full", "quota at 95%, refusing", "%s %d %v %!s(MISSING) %%", "ends with %",
	// long enough for the reply's metadata to need a two-byte length prefix
	"the request could not be applied because the replica is still catching up with the log of its peers; retry after the next view change has been installed (entry 18446744073709551615)"}

// GenMgr draws manager options that do not change the semantics under test.
func GenMgr(t *rapid.T, allowBlock bool) scen.MgrOpts {
	o := scen.MgrOpts{
		SendBuffer: rapid.SampledFrom([]uint{0, 0, 1, 2, 8}).Draw(t, "sendBuffer"),
		ListIDs:    rapid.IntRange(0, 3).Draw(t, "listIDs") == 0,
	}
	if allowBlock {
		o.WithBlock = rapid.Bool().Draw(t, "withBlock")
	}
	o.DialTimeoutMs = 30
	o.BackoffMs = 20
	return o
}

// Gen draws a case.
func Gen(t *rapid.T, b Bias) Case {
	if b.MaxN == 0 {
		b.MaxN = 6
	}
	n := rapid.IntRange(1, b.MaxN).Draw(t, "n")
	c := Case{N: n, Nodes: map[int]NodePlan{}}
	c.Mgr = GenMgr(t, b.AllowDown)
	c.RecvBu = rapid.SampledFrom([]uint{0, 0, 4}).Draw(t, "recvBuffer")
	// subject configuration: a non-empty subset of the servers
	size := rapid.IntRange(1, n).Draw(t, "cfgSize")
	if s2 := rapid.IntRange(1, n).Draw(t, "cfgSize2"); s2 > size {
		size = s2 // biased towards larger configurations
	}
	perm := rapid.Permutation(seq(n)).Draw(t, "cfgPerm")
	c.Cfg = append([]int(nil), perm[:size]...)
	sortInts(c.Cfg)
	kind := rapid.SampledFrom(b.Kinds).Draw(t, "kind")
	c.Call = scen.CallSpec{Kind: kind}
	targets := append([]int(nil), c.Cfg...)
	if scen.HasPerNode(kind) {
		c.Call.PerNode = map[int]string{}
		mode := rapid.IntRange(0, 9).Draw(t, "perNodeMode")
		var kept []int
		for _, s := range c.Cfg {
			skip := false
			switch {
			case mode == 0 && b.ZeroTargets:
				skip = true
			case mode <= 4:
				skip = rapid.IntRange(0, 2).Draw(t, fmt.Sprintf("skip%d", s)) == 0
			}
			if skip {
				c.Call.PerNode[s] = "skip"
				continue
			}
			if rapid.Bool().Draw(t, fmt.Sprintf("tagged%d", s)) {
				c.Call.PerNode[s] = fmt.Sprintf("tag:%d", rapid.IntRange(1, 9).Draw(t, fmt.Sprintf("tag%d", s)))
			}
			kept = append(kept, s)
		}
		if len(kept) == 0 && !b.ZeroTargets {
			// keep at least one target
			s := c.Cfg[0]
			delete(c.Call.PerNode, s)
			kept = []int{s}
		}
		targets = kept
	}
	// node plans
	kinds := []string{"reply", "reply", "reply", "error"}
	if b.AllowSilent {
		kinds = append(kinds, "silent")
	}
	if b.AllowDown {
		kinds = append(kinds, "down", "replyerr")
	}
	for _, s := range targets {
		p := NodePlan{Kind: rapid.SampledFrom(kinds).Draw(t, fmt.Sprintf("plan%d", s))}
		switch p.Kind {
		case "reply":
			p.Payload = rapid.SampledFrom([]int{0, 0, 3, 64, 3000}).Draw(t, fmt.Sprintf("payload%d", s))
		case "error", "replyerr":
			if b.AllCodes {
				p.ErrCode = rapid.IntRange(1, 16).Draw(t, fmt.Sprintf("code%d", s))
			} else {
				p.ErrCode = rapid.SampledFrom([]int{2, 5, 7, 13, 14}).Draw(t, fmt.Sprintf("code%d", s))
			}
			p.ErrMsg = rapid.SampledFrom(errMsgs).Draw(t, fmt.Sprintf("msg%d", s))
			if p.Kind == "error" && rapid.IntRange(0, 5).Draw(t, fmt.Sprintf("plain%d", s)) == 0 {
				p.Plain = true
				if p.ErrMsg == "" {
					p.ErrMsg = "plain"
				}
			}
		}
		if rapid.IntRange(0, 4).Draw(t, fmt.Sprintf("rel%d", s)) == 0 {
			p.Release = rapid.SampledFrom([]string{"early", "twice", "helper"}).Draw(t, fmt.Sprintf("relkind%d", s))
		}
		c.Nodes[s] = p
	}
	// servers outside the subject's targets still get a plan (they may serve background calls)
	// quorum script
	nt := len(targets)
	sk := rapid.SampledFrom([]string{"threshold", "threshold", "threshold", "needs", "equal", "table", "never"}).Draw(t, "script")
	sc := scen.QScript{Kind: sk}
	switch sk {
	case "threshold", "equal":
		sc.Q = rapid.IntRange(1, nt+1).Draw(t, "q")
	case "needs":
		if nt > 0 {
			sc.Node = rapid.SampledFrom(targets).Draw(t, "needsNode")
		}
		sc.Q = rapid.IntRange(1, max(1, nt)).Draw(t, "q")
	case "table":
		rows := rapid.IntRange(1, max(1, nt)).Draw(t, "rows")
		for i := 0; i < rows; i++ {
			sc.Table = append(sc.Table, scen.QStep{Done: rapid.IntRange(0, 3).Draw(t, fmt.Sprintf("done%d", i)) == 0, Level: i + 1})
		}
	}
	if rapid.IntRange(0, 5).Draw(t, "slowqf") == 0 {
		sc.SlowUs = rapid.SampledFrom([]int{200, 1000, 3000}).Draw(t, "slowUs")
	}
	c.Call.Script = sc
	c.Call.Payload = rapid.SampledFrom([]int{0, 0, 16, 2000}).Draw(t, "reqPayload")
	// context
	if b.AllowCtx {
		switch rapid.IntRange(0, 9).Draw(t, "ctxKind") {
		case 0, 1, 2, 3:
			c.Call.Ctx = "cancel"
		case 4:
			c.Call.Ctx = "deadline"
			c.Call.DeadlineUs = rapid.SampledFrom([]int{1, 200, 1000, 3000, 8000}).Draw(t, "deadlineUs")
		case 5:
			c.Call.Ctx = "precancelled"
		default:
			c.Call.Ctx = "background"
		}
		if c.Call.Ctx != "background" && rapid.IntRange(0, 3).Draw(t, "ctxCause") == 0 {
			c.Call.Cause = true // the context ends with a cause of the caller's own
		}
	}
	// script: answers in a generated arrival order, a cancel at a generated position
	var steps []Step
	var answering []int
	for _, s := range targets {
		if c.Nodes[s].Kind != "silent" {
			answering = append(answering, s)
		}
	}
	if len(answering) > 0 {
		order := rapid.Permutation(answering).Draw(t, "arrival")
		// sometimes leave a suffix unanswered (the call stays pending unless quorum/cancel)
		cut := len(order)
		if b.AllowSilent && rapid.IntRange(0, 5).Draw(t, "cutArrival") == 0 {
			cut = rapid.IntRange(0, len(order)).Draw(t, "cut")
		}
		for _, s := range order[:cut] {
			steps = append(steps, Step{Op: "answer", Node: s})
		}
	}
	if c.Call.Ctx == "cancel" && rapid.IntRange(0, 4).Draw(t, "doCancel") != 0 {
		pos := rapid.IntRange(0, len(steps)).Draw(t, "cancelPos")
		steps = insertStep(steps, pos, Step{Op: "cancel"})
	}
	partitioned := false
	if b.AllowStop && len(targets) > 0 {
		ns := rapid.IntRange(0, 2).Draw(t, "nstops")
		// in a sixth of the cases with stops the nodes' hosts stop answering instead: the connections
		// break and new attempts hang (for as long as the harness watches: gorums hands the back-off
		// to grpc as the connect deadline, so it is made long). With a long back-off a call to a
		// node that was stopped is, by design, answered only after one back-off period; such a case
		// therefore has no plain stops.
		partitioned = ns > 0 && rapid.IntRange(0, 5).Draw(t, "partition") == 0
		for i := 0; i < ns; i++ {
			s := rapid.SampledFrom(targets).Draw(t, fmt.Sprintf("stopNode%d", i))
			pos := rapid.IntRange(0, len(steps)).Draw(t, fmt.Sprintf("stopPos%d", i))
			op := "stop"
			if partitioned {
				op = "partition"
				c.Mgr.BackoffMs = 30000
			}
			steps = insertStep(steps, pos, Step{Op: op, Node: s})
		}
	}
	if b.AllowStop && !partitioned && len(targets) > 0 && rapid.IntRange(0, 3).Draw(t, "prestop") == 0 {
		// servers stopped after the manager connected but before the call is issued
		k := rapid.IntRange(1, len(targets)).Draw(t, "nprestop")
		pp := rapid.Permutation(targets).Draw(t, "prestopPerm")
		c.PreStop = append([]int(nil), pp[:k]...)
		sortInts(c.PreStop)
	}
	// background calls
	if b.Background {
		nb := rapid.SampledFrom([]int{0, 0, 1, 2}).Draw(t, "nbg")
		for i := 0; i < nb; i++ {
			bk := rapid.SampledFrom(scen.AllKinds).Draw(t, fmt.Sprintf("bgKind%d", i))
			bs := scen.CallSpec{Kind: bk, Thread: 1 + i}
			bsz := rapid.IntRange(1, n).Draw(t, fmt.Sprintf("bgSize%d", i))
			bperm := rapid.Permutation(seq(n)).Draw(t, fmt.Sprintf("bgPerm%d", i))
			bcfg := append([]int(nil), bperm[:bsz]...)
			sortInts(bcfg)
			bs.Node = bcfg[0]
			bs.Script = scen.QScript{Kind: "threshold", Q: rapid.IntRange(1, bsz).Draw(t, fmt.Sprintf("bgQ%d", i))}
			if scen.IsOneWay(bk) {
				bs.NoSendWait = rapid.Bool().Draw(t, fmt.Sprintf("bgNSW%d", i))
			}
			bs.Ctx = "cancel" // cancelled at teardown at the latest
			c.Bg = append(c.Bg, bs)
			c.BgCfg = append(c.BgCfg, bcfg)
			if rapid.Bool().Draw(t, fmt.Sprintf("bgLate%d", i)) {
				pos := rapid.IntRange(0, len(steps)).Draw(t, fmt.Sprintf("bgPos%d", i))
				steps = insertStep(steps, pos, Step{Op: "bg"})
			}
		}
	}
	c.Steps = steps
	if scen.IsAsync(kind) {
		c.Gets = rapid.IntRange(1, 4).Draw(t, "gets")
	}
	return c
}

func insertStep(steps []Step, pos int, s Step) []Step {
	out := make([]Step, 0, len(steps)+1)
	out = append(out, steps[:pos]...)
	out = append(out, s)
	out = append(out, steps[pos:]...)
	return out
}

func seq(n int) []int {
	s := make([]int, n)
	for i := range s {
		s[i] = i
	}
	return s
}

func sortInts(a []int) {
	for i := 1; i < len(a); i++ {
		for j := i; j > 0 && a[j] < a[j-1]; j-- {
			a[j], a[j-1] = a[j-1], a[j]
		}
	}
}

func max(a, b int) int {
	if a > b {
		return a
	}
	return b
}
