// C02 — a quorum call ends exactly on quorum, exhaustion (Incomplete) or context end.
package c02

import (
	"testing"

	"pgregory.net/rapid"

	"verif/qeng"
	"verif/vt"
)

func gen(t *rapid.T) qeng.Case {
	return qeng.Gen(t, qeng.Bias{Kinds: qeng.QCKinds(), MaxN: 6, AllowDown: true, AllowSilent: true, AllowCtx: true, ZeroTargets: true, Background: false})
}

func run(c qeng.Case) vt.Verdict {
	r := qeng.Run(c)
	if r.SetupErr != "" {
		return vt.Verdict{OK: true, Inconclusive: true, Msg: r.SetupErr, Classes: []string{"setup-error"}}
	}
	classes, _ := qeng.Classes(c, r)
	if v := qeng.CheckC02(c, r); v != nil {
		return vt.Verdict{OK: false, Key: v.Key, Msg: v.Msg, History: r.Events, Classes: classes}
	}
	nontrivial := len(r.Targets) <= 1 || (c.Call.Ctx != "" && c.Call.Ctx != "background")
	for _, s := range r.Targets {
		if k := c.Nodes[s].Kind; k != "reply" {
			nontrivial = true
		}
	}
	v := vt.Pass(nontrivial, classes...)
	if r.Late {
		v.Inconclusive = true
	}
	return v
}

func TestProp(t *testing.T) {
	vt.Main(t, vt.Spec[qeng.Case]{
		ID:           "C02",
		Rule:         "rapid-generated histories: 0-6 targeted nodes (0 via a per-node function that skips every node), thresholds 1..n+1 and value-dependent scripts, a scripted sequence of replies, node errors, silences and outages with one cancellation / deadline / pre-cancelled context placed at a generated position of that sequence, sync and async variants with repeated and concurrent Get/Done observations; outcome compared with the reference model (success iff quorum reported; Incomplete only when every targeted node answered, with errors+replies = targets; context error only when the context ended; never waits once one holds; never returns while none holds); non-trivial = the history contains an error, silence, outage or context end, or at most one targeted node",
		Gen:          gen,
		Run:          run,
		TrackCurrent: true,
	})
}
