// C05 — replies reach only the call that asked, under the right node, at most once.
package c05

import (
	"fmt"
	"sync/atomic"
	"testing"

	"pgregory.net/rapid"

	"verif/peng"
	"verif/scen"
	"verif/vt"
)

func gen(t *rapid.T) peng.Case {
	c := peng.GenProgram(t, peng.Bias{MinN: 3, MaxN: 6, MaxThreads: 8, MinOps: 6, MaxOps: 60, MaxMgrs: 2, Kinds: scen.AllKinds, Barriers: false,
		Cancel: true, MaxSleepUs: 6000, StreamItems: 3, AwaitProb: 2, ErrorNodes: true, FullQuorum: true, ReleaseModes: []string{"early", "early", ""}})
	if c.Threads < 2 {
		c.Threads = 2
	}
	if rapid.IntRange(0, 3).Draw(t, "failSend") == 0 {
		// one or two stream writes of the first manager fail (injected; nothing is written): streams are
		// re-created under calls in flight, whose late replies must not reach anybody else
		c.Mgrs[0].FailSendAt = rapid.SliceOfNDistinct(rapid.IntRange(1, 120), 1, 2, rapid.ID[int]).Draw(t, "failSendAt")
	}
	if len(c.Configs) > 0 && rapid.IntRange(0, 3).Draw(t, "aliases") == 0 {
		// some configurations register their servers a second time, under other ids (one address, two
		// nodes, two connections): replies arrive under the ids of the configuration that was called
		c.AliasCfg = rapid.SliceOfN(rapid.Bool(), len(c.Configs), len(c.Configs)).Draw(t, "aliasCfg")
	}
	if rapid.IntRange(0, 3).Draw(t, "cut") == 0 {
		// the connections to a server break underneath it (it keeps listening): replies that were on
		// their way are lost, the calls issued afterwards go over new streams
		k := rapid.IntRange(1, 3).Draw(t, "ncut")
		for i := 0; i < k; i++ {
			op := peng.Op{Kind: "cut", Thread: rapid.IntRange(0, c.Threads-1).Draw(t, fmt.Sprintf("cutThread%d", i)),
				Call: scen.CallSpec{Node: rapid.IntRange(0, c.N-1).Draw(t, fmt.Sprintf("cutNode%d", i))}}
			at := rapid.IntRange(0, len(c.Ops)).Draw(t, fmt.Sprintf("cutAt%d", i))
			c.Ops = append(c.Ops[:at], append([]peng.Op{op}, c.Ops[at:]...)...)
		}
	}
	c.GoMaxProcs = rapid.SampledFrom([]int{0, 0, 2, 4}).Draw(t, "gomaxprocs")
	c.Jitter = peng.GenJitter(t)
	return c
}

func run(c peng.Case) vt.Verdict {
	r := peng.Run(c, peng.Hooks{})
	if r.SetupErr != "" {
		return vt.Verdict{OK: true, Inconclusive: true, Msg: r.SetupErr, Classes: []string{"setup-error"}}
	}
	v, classes, nontrivial := peng.CheckC05(c, r)
	if v != nil {
		return vt.Verdict{OK: false, Key: v.Key, Msg: v.Msg, History: r.Events, Classes: classes}
	}
	for _, ci := range r.Calls {
		if ci.Alias {
			classes = append(classes, "call-on-alias-configuration")
			break
		}
	}
	if r.Cuts > 0 {
		classes = append(classes, "connection-cut")
	}
	if len(r.Clients) > 0 && atomic.LoadInt32(&r.Clients[0].SendsFailed) > 0 {
		classes = append(classes, "injected-send-failure")
	}
	res := vt.Pass(nontrivial, classes...)
	res.Inconclusive = r.Late
	return res
}

func TestProp(t *testing.T) {
	vt.Main(t, vt.Spec[peng.Case]{
		ID:           "C05",
		Rule:         "rapid-generated concurrent programs: one or two client managers (their message ids collide), 3-6 servers, up to 4 overlapping configurations (in a quarter of the cases some of them register their servers a second time under other node ids - one address, two nodes), 2-8 threads issuing 6-60 calls of all kinds with unique tokens; handlers release at once and answer after generated delays up to 6 ms while calls carry cancellations/deadlines of 1 us - 5 ms (replies arrive long after the call ended), in a quarter of the cases one or two injected failures of single stream writes of the first manager (streams are re-created under calls in flight), in a quarter one to three cuts of the connections to a server that keeps listening, in half of the cases seeded jitter at the statement-level yield points of the instrumented runtime; oracle: every reply shown to any quorum function and every RPC result carries the call's own token, sits under the node that produced it and equals what that handler produced (stamps: token, node, serial, payload hash), entries never change between invocations of non-streaming calls, no quorum function runs after its call returned; non-trivial (measured) = two calls overlapping in time on a shared node, or a reply produced after its call ended; additionally a node of a non-streaming call is heard of once, as a reply or as an error (no node listed twice among a call's node errors, none listed whose reply the quorum function was shown)",
		Gen:          gen,
		Run:          run,
		TrackCurrent: true,
	})
}
