#!/bin/sh
# tools/altcheck.sh <tree> <ID> <tier|--replay file> : runs a check of a COPY of /verif against
# another gorums tree (a scratch worktree with a seeded change applied), so that sensitivity
# experiments neither touch /repo nor /verif/evidence and can run in parallel. Never used by the
# commands registered in MANIFEST.json; remove the copy (/tmp/vcopy-<name>) afterwards.
set -e
R=$(cd "$1" && pwd); shift
D=/tmp/vcopy-$(basename "$R")
if [ ! -d "$D" ] || [ -n "$ALT_REFRESH" ]; then
  mkdir -p "$D"
  rsync -a --delete --exclude .work --exclude .git --exclude evidence "${ALT_SRC:-/verif}/" "$D/"
  mkdir -p "$D/evidence"
  sed -i "s#=> /repo\$#=> $R#" "$D/harness/go.mod"
fi
cd "$D" && VERIF_REPO="$R" exec ./check "$@"
