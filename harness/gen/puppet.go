package gen

import "google.golang.org/protobuf/types/descriptorpb"

const (
	tU64   = descriptorpb.FieldDescriptorProto_TYPE_UINT64
	tU32   = descriptorpb.FieldDescriptorProto_TYPE_UINT32
	tI32   = descriptorpb.FieldDescriptorProto_TYPE_INT32
	tI64   = descriptorpb.FieldDescriptorProto_TYPE_INT64
	tS32   = descriptorpb.FieldDescriptorProto_TYPE_SINT32
	tS64   = descriptorpb.FieldDescriptorProto_TYPE_SINT64
	tF32   = descriptorpb.FieldDescriptorProto_TYPE_FIXED32
	tF64   = descriptorpb.FieldDescriptorProto_TYPE_FIXED64
	tSF32  = descriptorpb.FieldDescriptorProto_TYPE_SFIXED32
	tSF64  = descriptorpb.FieldDescriptorProto_TYPE_SFIXED64
	tFloat = descriptorpb.FieldDescriptorProto_TYPE_FLOAT
	tDbl   = descriptorpb.FieldDescriptorProto_TYPE_DOUBLE
	tBool  = descriptorpb.FieldDescriptorProto_TYPE_BOOL
	tStr   = descriptorpb.FieldDescriptorProto_TYPE_STRING
	tBytes = descriptorpb.FieldDescriptorProto_TYPE_BYTES
	tMsg   = descriptorpb.FieldDescriptorProto_TYPE_MESSAGE
	tEnum  = descriptorpb.FieldDescriptorProto_TYPE_ENUM
)

func i32(v int32) *int32 { return &v }

// Puppet is the harness service: one method per call type and option
// combination gorums documents (DESIGN.md 2.2).
func Puppet() File {
	var ms []Method
	ms = append(ms, Method{Name: "RPC", In: "Req", Out: "Rep"})
	for _, v := range []struct {
		suffix  string
		perNode bool
		custom  string
	}{{"", false, ""}, {"PerNode", true, ""}, {"Custom", false, "Custom"}, {"Combo", true, "Custom"}} {
		ms = append(ms,
			Method{Name: "QC" + v.suffix, In: "Req", Out: "Rep", Quorumcall: true, PerNodeArg: v.perNode, CustomReturn: v.custom},
			Method{Name: "Async" + v.suffix, In: "Req", Out: "Rep", Quorumcall: true, Async: true, PerNodeArg: v.perNode, CustomReturn: v.custom},
			Method{Name: "Corr" + v.suffix, In: "Req", Out: "Rep", Correctable: true, PerNodeArg: v.perNode, CustomReturn: v.custom},
			Method{Name: "CorrStream" + v.suffix, In: "Req", Out: "Rep", Correctable: true, ServerStream: true, PerNodeArg: v.perNode, CustomReturn: v.custom},
		)
	}
	ms = append(ms,
		Method{Name: "Multicast", In: "Req", Out: "Empty", Multicast: true},
		Method{Name: "MulticastPerNode", In: "Req", Out: "Empty", Multicast: true, PerNodeArg: true},
		Method{Name: "Unicast", In: "Req", Out: "Empty", Unicast: true},
	)
	return File{
		Name:      "puppet.proto",
		Package:   "puppet",
		GoPackage: "verif/puppet",
		Messages: []Message{
			{Name: "Req", Fields: []Field{
				{Name: "token", Number: 1, Type: tU64},
				{Name: "seq", Number: 2, Type: tU64},
				{Name: "thread", Number: 3, Type: tU32},
				{Name: "node_tag", Number: 4, Type: tU32},
				{Name: "note", Number: 5, Type: tStr},
				{Name: "payload", Number: 6, Type: tBytes},
				{Name: "rich", Number: 7, Type: tMsg, TypeName: ".puppet.Rich"},
			}},
			{Name: "Rep", Fields: []Field{
				{Name: "token", Number: 1, Type: tU64},
				{Name: "seq", Number: 2, Type: tU64},
				{Name: "node", Number: 3, Type: tU32},
				{Name: "serial", Number: 4, Type: tU64},
				{Name: "level", Number: 5, Type: tI32},
				{Name: "payload", Number: 6, Type: tBytes},
				{Name: "nonce", Number: 7, Type: tU64},
				{Name: "node_tag", Number: 8, Type: tU32},
				{Name: "rich", Number: 9, Type: tMsg, TypeName: ".puppet.Rich"},
			}},
			{Name: "Custom", Fields: []Field{
				{Name: "nonce", Number: 1, Type: tU64},
				{Name: "nodes", Number: 2, Type: tU32, Repeated: true},
				{Name: "level", Number: 3, Type: tI32},
			}},
			{Name: "Empty"},
			{Name: "Rich",
				Oneofs: []string{"choice"},
				Enums:  []Enum{{Name: "Kind", Values: []string{"KIND_ZERO", "KIND_ONE", "KIND_TWO"}}},
				Nested: []Message{
					{Name: "Inner", Fields: []Field{
						{Name: "a", Number: 1, Type: tI64},
						{Name: "b", Number: 2, Type: tStr},
						{Name: "deeper", Number: 3, Type: tMsg, TypeName: ".puppet.Rich.Inner"},
					}},
					{Name: "TagsEntry", MapEntry: true, Fields: []Field{
						{Name: "key", Number: 1, Type: tStr},
						{Name: "value", Number: 2, Type: tI32},
					}},
					{Name: "ByIdEntry", MapEntry: true, Fields: []Field{
						{Name: "key", Number: 1, Type: tU32},
						{Name: "value", Number: 2, Type: tMsg, TypeName: ".puppet.Rich.Inner"},
					}},
				},
				Fields: []Field{
					{Name: "f_double", Number: 1, Type: tDbl},
					{Name: "f_float", Number: 2, Type: tFloat},
					{Name: "f_int32", Number: 3, Type: tI32},
					{Name: "f_int64", Number: 4, Type: tI64},
					{Name: "f_uint32", Number: 5, Type: tU32},
					{Name: "f_uint64", Number: 6, Type: tU64},
					{Name: "f_sint32", Number: 7, Type: tS32},
					{Name: "f_sint64", Number: 8, Type: tS64},
					{Name: "f_fixed32", Number: 9, Type: tF32},
					{Name: "f_fixed64", Number: 10, Type: tF64},
					{Name: "f_sfixed32", Number: 11, Type: tSF32},
					{Name: "f_sfixed64", Number: 12, Type: tSF64},
					{Name: "f_bool", Number: 13, Type: tBool},
					{Name: "f_string", Number: 14, Type: tStr},
					{Name: "f_bytes", Number: 15, Type: tBytes},
					{Name: "f_kind", Number: 16, Type: tEnum, TypeName: ".puppet.Rich.Kind"},
					{Name: "inner", Number: 17, Type: tMsg, TypeName: ".puppet.Rich.Inner"},
					{Name: "r_int32", Number: 18, Type: tI32, Repeated: true},
					{Name: "r_string", Number: 19, Type: tStr, Repeated: true},
					{Name: "r_inner", Number: 20, Type: tMsg, TypeName: ".puppet.Rich.Inner", Repeated: true},
					{Name: "tags", Number: 21, Type: tMsg, TypeName: ".puppet.Rich.TagsEntry", Repeated: true},
					{Name: "by_id", Number: 22, Type: tMsg, TypeName: ".puppet.Rich.ByIdEntry", Repeated: true},
					{Name: "c_num", Number: 23, Type: tI64, Oneof: i32(0)},
					{Name: "c_text", Number: 24, Type: tStr, Oneof: i32(0)},
					{Name: "c_inner", Number: 25, Type: tMsg, TypeName: ".puppet.Rich.Inner", Oneof: i32(0)},
					{Name: "r_kind", Number: 26, Type: tEnum, TypeName: ".puppet.Rich.Kind", Repeated: true},
					{Name: "r_bytes", Number: 27, Type: tBytes, Repeated: true},
				}},
		},
		Services: []Service{{Name: "Puppet", Methods: ms}},
	}
}
