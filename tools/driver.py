#!/usr/bin/env python3
"""Driver for the gorums verification checks (DESIGN.md section 2).

usage: driver.py <ID> quick|thorough
       driver.py <ID> --replay <file>

exit 0: property held on everything explored (KNOWN-FINDING lines possible)
exit 1: a line `VIOLATION property=<id> replay=<path>` was printed
exit 2: inconclusive (infrastructure trouble, time budget, build failure)
"""
import array
import fcntl
import glob
import json
import os
import re
import shutil
import signal
import subprocess
import sys
import time

VERIF = os.path.dirname(os.path.dirname(os.path.abspath(__file__)))
HARNESS = os.path.join(VERIF, "harness")
WORK = os.path.join(VERIF, ".work")
REPO = os.environ.get("VERIF_REPO", "/repo")  # another tree only for sensitivity experiments (tools/altcheck.sh)
KNOWN = os.path.join(VERIF, "known_findings.json")

sys.path.insert(0, os.path.dirname(os.path.abspath(__file__)))
from props import PROPS, ASSUMPTIONS  # noqa: E402


def log(*a):
    print(*a, flush=True)


def goenv():
    env = dict(os.environ)
    env.update({
        "GOFLAGS": "-mod=mod", "GOPROXY": "off", "GOSUMDB": "off", "GOTOOLCHAIN": "local",
        "CGO_ENABLED": env.get("CGO_ENABLED", "1"),
        "VERIF_WORK": WORK, "VERIF_HARNESS": HARNESS, "VERIF_REPO": REPO,
    })
    return env


def splitmix64(x):
    x = (x + 0x9E3779B97F4A7C15) & 0xFFFFFFFFFFFFFFFF
    z = x
    z = ((z ^ (z >> 30)) * 0xBF58476D1CE4E5B9) & 0xFFFFFFFFFFFFFFFF
    z = ((z ^ (z >> 27)) * 0x94D049BB133111EB) & 0xFFFFFFFFFFFFFFFF
    return z ^ (z >> 31)


def shard_seed(seed, pid, k):
    n = int(pid[1:])
    x = splitmix64(seed & 0xFFFFFFFFFFFFFFFF)
    x = splitmix64(x ^ (n * 0x1000193))
    x = splitmix64(x ^ (k * 0x9E3779B1))
    return (x >> 1) | 1  # never 0 (0 = random for rapid); keep below 2^63


class Inconclusive(Exception):
    pass


def run(cmd, cwd=None, env=None, timeout=None, capture=True):
    p = subprocess.run(cmd, cwd=cwd, env=env, timeout=timeout,
                       stdout=subprocess.PIPE if capture else None,
                       stderr=subprocess.STDOUT if capture else None, text=True)
    return p.returncode, (p.stdout or "")


# --------------------------------------------------------------------------- prepare

def prepare(cfg, pid):
    """Everything that is rebuilt from /repo's working tree before a check."""
    os.makedirs(WORK, exist_ok=True)
    lock = open(os.path.join(WORK, "prepare.lock"), "w")
    fcntl.flock(lock, fcntl.LOCK_EX)
    try:
        env = goenv()
        # go.sum of the harness must contain what /repo's go.sum contains
        sync_gosum()
        overlay = write_overlay(cfg.get("overlay", "access"))
        if cfg.get("puppet"):
            gen_puppet(env)
        elif cfg.get("plugins"):
            build_plugins(env)
        return overlay
    finally:
        fcntl.flock(lock, fcntl.LOCK_UN)
        lock.close()


def sync_gosum():
    src = open(os.path.join(REPO, "go.sum")).read().splitlines()
    dstp = os.path.join(HARNESS, "go.sum")
    dst = open(dstp).read().splitlines() if os.path.exists(dstp) else []
    have = set(dst)
    add = [l for l in src if l not in have]
    if add:
        with open(dstp, "a") as f:
            f.write("\n".join(add) + "\n")


def write_overlay(kind):
    """kind: access (accessors only) | instr (accessors + yield points + clock)."""
    inj = os.path.join(HARNESS, "inject")
    rep = {}
    for f in sorted(glob.glob(os.path.join(inj, "zz_verif_access*.go.in"))):
        rep[os.path.join(REPO, os.path.basename(f)[:-3])] = f
    path = os.path.join(WORK, "overlay-%s.json" % kind)
    if kind == "instr":
        odir = os.path.join(WORK, "overlay-instr")
        rc, out = run(["go", "run", "./cmd/vinstr", "-repo", REPO, "-out", odir], cwd=HARNESS, env=goenv(), timeout=600)
        if rc != 0:
            raise Inconclusive("vinstr failed:\n" + out)
        extra = json.load(open(os.path.join(odir, "replace.json")))
        rep.update(extra)
        f = os.path.join(inj, "zz_verif_sched.go.in")
        rep[os.path.join(REPO, "zz_verif_sched.go")] = f
    tmp = path + ".tmp%d" % os.getpid()
    json.dump({"Replace": rep}, open(tmp, "w"), indent=1)
    os.replace(tmp, path)
    return path


def build_plugins(env):
    bindir = os.path.join(WORK, "bin")
    os.makedirs(bindir, exist_ok=True)
    rc, out = run(["go", "build", "-o", os.path.join(bindir, "protoc-gen-gorums"),
                   "github.com/relab/gorums/cmd/protoc-gen-gorums"], cwd=HARNESS, env=env, timeout=900)
    if rc != 0:
        raise Inconclusive("cannot build the plugin from /repo:\n" + out)
    rc, out = run(["go", "build", "-o", os.path.join(bindir, "protoc-gen-go"),
                   "google.golang.org/protobuf/cmd/protoc-gen-go"], cwd=HARNESS, env=env, timeout=900)
    if rc != 0:
        raise Inconclusive("cannot build protoc-gen-go:\n" + out)


def gen_puppet(env):
    bindir = os.path.join(WORK, "bin")
    build_plugins(env)
    rc, out = run(["go", "build", "-o", os.path.join(bindir, "vgen"), "./cmd/vgen"], cwd=HARNESS, env=env, timeout=900)
    if rc != 0:
        raise Inconclusive("cannot build vgen:\n" + out)
    rc, out = run([os.path.join(bindir, "vgen"), "puppet", "-bin", bindir, "-out", os.path.join(HARNESS, "puppet")],
                  cwd=HARNESS, env=env, timeout=300)
    if rc != 0:
        raise Inconclusive("puppet stubs could not be generated from the working tree's plugin:\n" + out)


def build(pid, cfg, overlay, race):
    env = goenv()
    bindir = os.path.join(WORK, "bin")
    os.makedirs(bindir, exist_ok=True)
    out = os.path.join(bindir, "%s%s.test" % (pid.lower(), "-race" if race else ""))
    cmd = ["go", "test", "-c", "-overlay", overlay, "-vet=off", "-o", out]
    if race:
        cmd.append("-race")
    cmd.append(cfg["pkg"])
    rc, txt = run(cmd, cwd=HARNESS, env=env, timeout=1800)
    if rc != 0:
        raise Inconclusive("build of %s failed:\n%s" % (cfg["pkg"], txt))
    return out


# --------------------------------------------------------------------------- running

def start_proc(binary, args, env_extra, logpath, cwd):
    env = goenv()
    env.update(env_extra)
    lf = open(logpath, "w")
    return subprocess.Popen([binary] + args, cwd=cwd, env=env, stdout=lf, stderr=subprocess.STDOUT,
                            start_new_session=True), lf


def wait_all(procs, deadline):
    """procs: list of (Popen, logfile). Returns list of (rc|None-if-killed)."""
    res = [None] * len(procs)
    pending = set(range(len(procs)))
    while pending:
        for i in list(pending):
            rc = procs[i][0].poll()
            if rc is not None:
                res[i] = rc
                pending.discard(i)
        if not pending:
            break
        if time.time() > deadline:
            for i in pending:
                try:
                    os.killpg(procs[i][0].pid, signal.SIGQUIT)
                except ProcessLookupError:
                    pass
            time.sleep(2)
            for i in pending:
                try:
                    os.killpg(procs[i][0].pid, signal.SIGKILL)
                except ProcessLookupError:
                    pass
                procs[i][0].wait()
                res[i] = "timeout"
            break
        time.sleep(0.05)
    for p, lf in procs:
        lf.close()
    return res


PANIC_RE = re.compile(r"^(panic: |fatal error: )", re.M)


def classify_crash(logtext):
    """Returns (kind, key, summary): kind in library|harness|none."""
    m = PANIC_RE.search(logtext)
    if not m:
        return "none", "", ""
    tail = logtext[m.start():]
    first_line = tail.splitlines()[0][:300]
    # frames of the panicking goroutine: up to the first blank line after "goroutine N ["
    g = re.search(r"\ngoroutine \d+ \[[^\]]*\]:\n(.*?)(\n\n|\Z)", tail, re.S)
    frames = []
    if g:
        for line in g.group(1).splitlines():
            if line.startswith("\t") or not line.strip():
                continue
            frames.append(line.strip())
    lib = None
    for fr in frames:
        if fr.startswith("runtime.") or fr.startswith("panic(") or fr.startswith("sync.") or fr.startswith("testing.") \
                or fr.startswith("runtime/") or fr.startswith("internal/"):
            continue
        if fr.startswith("created by"):
            continue
        if fr.startswith("github.com/relab/gorums") or fr.startswith("verif/puppet."):
            lib = fr
            break
        if fr.startswith("verif/") and "_gorums.pb.go" not in fr:
            # first user frame is harness code: is there a library frame calling it? still a harness bug
            return "harness", "", first_line + " @ " + fr
        if fr.startswith("google.golang.org/"):
            continue
        lib = lib or None
    if lib is None:
        # panic without an identifiable owner; look for 'created by github.com/relab/gorums'
        cb = re.search(r"created by (github\.com/relab/gorums[^\s]*)", g.group(1) if g else "")
        if cb:
            lib = cb.group(1)
    if lib is None:
        return "harness", "", first_line
    fn = re.sub(r"\(.*$", "", lib)
    fn = fn.replace("github.com/relab/gorums.", "")
    msg = re.sub(r"0x[0-9a-f]+", "0x?", first_line)
    msg = re.sub(r"goroutine \d+", "goroutine N", msg)
    return "library", "crash/%s/%s" % (fn, msg[:80]), first_line + " @ " + lib


def load_known(pid):
    if not os.path.exists(KNOWN):
        return []
    ff = json.load(open(KNOWN))
    return [f for f in ff.get("findings", []) if f.get("property") == pid]


def faildir(pid):
    d = os.path.join(WORK, "fail", pid)
    os.makedirs(d, exist_ok=True)
    return d


def save_fail(pid, src_json_path=None, obj=None, tag=""):
    d = faildir(pid)
    name = "%s-%s%s.json" % (pid, time.strftime("%Y%m%d-%H%M%S"), tag)
    dst = os.path.join(d, name)
    if src_json_path:
        shutil.copyfile(src_json_path, dst)
    else:
        json.dump(obj, open(dst, "w"), indent=1)
    return dst


def run_replays(pid, cfg, binary, files, outdir, repeat, timeout):
    """Replays case files in one process per file group; returns list of result dicts."""
    results = []
    if not files:
        return results
    os.makedirs(outdir, exist_ok=True)
    # one process per file so that a crash is attributable
    for i, f in enumerate(files):
        od = os.path.join(outdir, "r%d" % i)
        shutil.rmtree(od, ignore_errors=True)
        os.makedirs(od)
        envx = {"VERIF_MODE": "replay", "VERIF_OUT": od, "VERIF_REPLAY": f, "VERIF_KNOWN": KNOWN,
                "VERIF_REPLAY_REPEAT": str(repeat), "VERIF_TIER": os.environ.get("VERIF_TIER", "quick")}
        envx.update(cfg.get("env", {}))
        p, lf = start_proc(binary, ["-test.run", "^TestProp$", "-test.timeout", "%ds" % timeout, "-test.v"], envx,
                           os.path.join(od, "log.txt"), HARNESS)
        rc = wait_all([(p, lf)], time.time() + timeout + 30)[0]
        logtext = open(os.path.join(od, "log.txt"), errors="replace").read()
        rl = os.path.join(od, "replay.jsonl")
        got = []
        if os.path.exists(rl):
            for line in open(rl):
                line = line.strip()
                if line:
                    got.append(json.loads(line))
        if got:
            results.extend(got)
            continue
        kind, key, summary = classify_crash(logtext)
        if kind == "library":
            results.append({"file": f, "verdict": {"ok": False, "key": key, "msg": summary}, "known": False, "crash": True})
        else:
            results.append({"file": f, "err": "replay process ended rc=%s without a result (%s)" % (rc, summary or "see " + od)})
    return results


def check(pid, tier, replay_file=None):
    t0 = time.time()
    cfg = PROPS[pid]
    seed = int(os.environ.get("VERIF_SEED", "1") or "1")
    os.environ["VERIF_TIER"] = tier
    tc = cfg[tier] if tier in cfg else cfg["quick"]
    rundir = os.path.join(WORK, pid, "replay" if replay_file else tier)
    shutil.rmtree(rundir, ignore_errors=True)
    os.makedirs(rundir, exist_ok=True)

    overlay = prepare(cfg, pid)
    binary = build(pid, cfg, overlay, race=cfg.get("race", False))
    race_binary = None
    if tc.get("race_shards", 0) > 0 and not cfg.get("race", False):
        race_binary = build(pid, cfg, overlay, race=True)

    known = load_known(pid)
    known_open = {f["key"]: f for f in known if f.get("status") == "open" and f.get("key")}
    violations = []   # (key, msg, replayfile)
    known_lines = []
    inconclusive = []
    repeat = cfg.get("replay_repeat", 1)
    rtimeout = cfg.get("replay_timeout", 120)

    if replay_file:
        res = run_replays(pid, cfg, binary, [os.path.abspath(replay_file)], os.path.join(rundir, "replay"), max(repeat, 1), rtimeout)
        for r in res:
            if r.get("err"):
                log("replay inconclusive: %s" % r["err"])
                return 2
            v = r["verdict"]
            if v.get("ok"):
                log("replay %s: property holds on this case" % r["file"])
                return 0
            log("replay %s: key=%s %s" % (r["file"], v.get("key"), v.get("msg")))
            if r.get("known") or v.get("key") in known_open:
                log("KNOWN-FINDING: property=%s %s" % (pid, known_open[v["key"]]["what"]))
                return 0
            log("VIOLATION property=%s replay=%s" % (pid, r["file"]))
            return 1
        return 2

    # ---- tier 0: known-finding repros and the regression corpus
    kfiles = []
    for f in known:
        if f.get("status") == "open" and f.get("repro"):
            kfiles.append(os.path.join(VERIF, f["repro"]))
    regress = sorted(glob.glob(os.path.join(VERIF, "regress", pid, "*.json")))
    regress = [f for f in regress if f not in kfiles]
    n_regress = 0
    res = run_replays(pid, cfg, binary, kfiles + regress, os.path.join(rundir, "replay"), max(repeat, 1), rtimeout)
    seen_known = set()
    for r in res:
        n_regress += 1
        if r.get("err"):
            inconclusive.append("replay of %s: %s" % (r.get("file"), r["err"]))
            continue
        v = r["verdict"]
        if v.get("ok") or v.get("inconclusive"):
            continue
        key = v.get("key", "")
        if key in known_open:
            seen_known.add(key)
            continue
        violations.append((key, v.get("msg", ""), r["file"]))
    for key in sorted(seen_known):
        known_lines.append("KNOWN-FINDING: property=%s %s" % (pid, known_open[key]["what"]))

    # ---- tier 1: the generated search
    shards = tc.get("shards", 1)
    checks = tc["checks"]
    timeout = tc.get("timeout", 600)
    procs = []
    sdirs = []
    seeds = []
    for k in range(shards):
        sd = os.path.join(rundir, "shard%d" % k)
        os.makedirs(sd)
        sdirs.append(sd)
        s = shard_seed(seed, pid, k)
        seeds.append(s)
        use_race = race_binary is not None and k >= shards - tc.get("race_shards", 0)
        b = race_binary if use_race else binary
        nchecks = checks
        if use_race:
            nchecks = max(1, checks // tc.get("race_div", 4))
        envx = {"VERIF_MODE": "search", "VERIF_OUT": sd, "VERIF_KNOWN": KNOWN, "VERIF_SHARD": str(k),
                "VERIF_TIER": tier, "VERIF_CASE_SEED": str(s)}
        if use_race or cfg.get("race", False):
            envx["GORACE"] = "halt_on_error=0 exitcode=0 log_path=%s" % os.path.join(sd, "race")
        envx.update(cfg.get("env", {}))
        args = ["-test.run", "^TestProp$", "-test.timeout", "%ds" % timeout,
                "-rapid.checks=%d" % nchecks, "-rapid.seed=%d" % s, "-rapid.nofailfile",
                "-rapid.shrinktime=%s" % tc.get("shrinktime", cfg.get("shrinktime", "20s"))]
        procs.append(start_proc(b, args, envx, os.path.join(sd, "log.txt"), HARNESS))
    rcs = wait_all(procs, time.time() + timeout + 60)

    evaluations = 0
    classes = {}
    excluded = {}
    incon_cases = 0
    samples = []
    hashes = set()
    rule = cfg.get("rule", "")
    for k, sd in enumerate(sdirs):
        st = None
        sp = os.path.join(sd, "stats.json")
        if os.path.exists(sp):
            try:
                st = json.load(open(sp))
            except Exception:
                st = None
        if st:
            evaluations += st.get("evaluations", 0)
            for c, n in (st.get("classes") or {}).items():
                classes[c] = classes.get(c, 0) + n
            for c, n in (st.get("excluded_known") or {}).items():
                excluded[c] = excluded.get(c, 0) + n
            incon_cases += st.get("inconclusive", 0)
            if len(samples) < 6:
                samples.extend((st.get("samples") or [])[:2])
            rule = st.get("rule") or rule
        hp = os.path.join(sd, "hashes.bin")
        if os.path.exists(hp):
            a = array.array("Q")
            with open(hp, "rb") as f:
                data = f.read()
            a.frombytes(data[:len(data) // 8 * 8])
            hashes.update(a)
        rc = rcs[k]
        logtext = open(os.path.join(sd, "log.txt"), errors="replace").read()
        if rc == 0:
            # rapid stops drawing cases when the go test deadline approaches and still reports success
            done = (st or {}).get("evaluations", 0)
            want = max(1, checks // tc.get("race_div", 4)) if (race_binary is not None and k >= shards - tc.get("race_shards", 0)) else checks
            if done < want:
                inconclusive.append("shard %d ran only %d of %d cases before its time budget (%ds) ended" % (k, done, want, timeout))
            continue
        failmin = os.path.join(sd, "fail-min.json")
        if rc == "timeout":
            inconclusive.append("shard %d exceeded its time budget (%ds)" % (k, timeout))
            continue
        kind, key, summary = classify_crash(logtext)
        if kind == "library":
            cur = os.path.join(sd, "current.json")
            case = json.load(open(cur)) if os.path.exists(cur) else None
            if key in known_open:
                excluded[key] = excluded.get(key, 0) + 1
                inconclusive.append("shard %d ended early on a known crash (%s)" % (k, key))
                continue
            obj = {"property": pid, "case": case, "verdict": {"ok": False, "key": key, "msg": summary},
                   "note": "process crash; log: " + os.path.join(sd, "log.txt")}
            violations.append((key, summary, save_fail(pid, obj=obj, tag="-crash-s%d" % k)))
            continue
        if kind == "harness":
            inconclusive.append("shard %d: harness-side panic: %s" % (k, summary))
            continue
        if os.path.exists(failmin):
            ff = json.load(open(failmin))
            v = ff.get("verdict", {})
            dst = save_fail(pid, src_json_path=failmin, tag="-s%d" % k)
            first = os.path.join(sd, "fail-first.json")
            if os.path.exists(first):
                shutil.copyfile(first, dst.replace(".json", ".first.json"))
            violations.append((v.get("key", ""), v.get("msg", ""), dst))
            continue
        if "test timed out" in logtext:
            inconclusive.append("shard %d: go test deadline reached" % k)
            continue
        inconclusive.append("shard %d ended with rc=%s and no failing case; see %s" % (k, rc, os.path.join(sd, "log.txt")))

    # extra steps (e.g. native fuzzing) declared by the property
    for extra in tc.get("extra", []):
        ev, viol, inc, info = EXTRA[extra["kind"]](pid, cfg, extra, overlay, rundir, seed)
        evaluations += ev
        violations.extend(viol)
        inconclusive.extend(inc)
        classes.update(info)

    if evaluations >= 20 and incon_cases * 5 > evaluations:
        inconclusive.append("%d of %d cases could not be evaluated (setup did not complete; overloaded machine, or nodes do not connect)" % (incon_cases, evaluations))
    wall = time.time() - t0
    level = cfg.get("level", "exploration")
    cov = {
        "evaluations": evaluations,
        "distinct_nontrivial": len(hashes),
        "rule": rule,
        "samples": samples,
        "classes": dict(sorted(classes.items())),
        "excluded_known": excluded,
        "inconclusive_cases": incon_cases,
        "regression_cases_replayed": n_regress,
        "shards": shards,
        "shard_seeds": seeds,
        "requested_cases_per_shard": checks,
        "known_findings_reproduced": sorted(seen_known),
    }
    ev = {
        "property_id": pid, "tier": tier, "seed": seed, "level": level, "coverage": cov,
        "assumptions": ASSUMPTIONS.get("*", []) + ASSUMPTIONS.get(pid, []),
        "wall_s": round(wall, 2), "violations": len(violations),
    }
    if inconclusive:
        ev["coverage"]["inconclusive"] = inconclusive
    os.makedirs(os.path.join(VERIF, "evidence"), exist_ok=True)
    tmp = os.path.join(VERIF, "evidence", ".%s.json.tmp" % pid)
    json.dump(ev, open(tmp, "w"), indent=1)
    os.replace(tmp, os.path.join(VERIF, "evidence", "%s.json" % pid))

    for l in known_lines:
        log(l)
    log("%s %s: %d cases, %d distinct non-trivial, %d excluded as known, %d regression cases, %.1fs" %
        (pid, tier, evaluations, len(hashes), sum(excluded.values()), n_regress, wall))
    if violations:
        seenk = set()
        for key, msg, f in violations:
            if key in seenk:
                continue
            seenk.add(key)
            log("  violation key=%s: %s" % (key, msg[:600]))
            log("VIOLATION property=%s replay=%s" % (pid, f))
        return 1
    if inconclusive:
        for i in inconclusive:
            log("  inconclusive: " + i)
        return 2
    return 0


EXTRA = {}

try:
    from extras import register  # noqa: E402
    register(EXTRA, globals())
except ImportError:
    pass


def main():
    if len(sys.argv) < 3:
        print(__doc__)
        return 2
    pid = sys.argv[1]
    if pid not in PROPS:
        print("unknown property", pid)
        return 2
    try:
        if sys.argv[2] == "--replay":
            return check(pid, os.environ.get("VERIF_TIER", "quick"), replay_file=sys.argv[3])
        tier = sys.argv[2]
        if tier not in ("quick", "thorough"):
            print(__doc__)
            return 2
        return check(pid, tier)
    except Inconclusive as e:
        log("INCONCLUSIVE: %s" % e)
        return 2
    except subprocess.TimeoutExpired as e:
        log("INCONCLUSIVE: %s" % e)
        return 2


if __name__ == "__main__":
    sys.exit(main())
