package gen

// Driver generation for C17 part 2 (DESIGN.md 3.6 f): for a documented-legal
// definition, emit a Go main package that starts three in-process gorums
// servers implementing the generated server interface, installs a recording
// QuorumSpec, calls every method once through the generated client stub and
// prints the recorded events as JSON. CheckDriverLog is the oracle over that
// log.

import (
	"fmt"
	"sort"
	"strings"

	"google.golang.org/protobuf/compiler/protogen"
	"google.golang.org/protobuf/types/pluginpb"
)

// Driver constants (mirrored in the vdrv source below).
const (
	DrvServers   = 3
	DrvStreamLen = 3
	DrvFirstID   = 11 // node ids are 11, 12, 13
	DrvReqNum    = 7
	DrvRPCNode   = 1 // index of the node rpc/unicast methods are called on
)

// MethodPlan is what the oracle needs to know about one method.
type MethodPlan struct {
	Name       string `json:"name"`    // proto name (used in stamps)
	GoName     string `json:"go_name"` // stub name
	Kind       string `json:"kind"`    // rpc unicast multicast quorumcall async correctable correctablestream
	PerNode    bool   `json:"per_node,omitempty"`
	Custom     bool   `json:"custom,omitempty"`
	InStamped  bool   `json:"in_stamped"`  // request type carries stamp/num (not Empty)
	OutStamped bool   `json:"out_stamped"` // reply type carries stamp/num
	ResStamped bool   `json:"res_stamped"` // result type (custom or reply type) carries stamp/num
	// Twin: another method of the same kind has a result type of the same
	// base name in another package (the promise types are named by base name).
	Twin bool `json:"twin,omitempty"`
}

// DriverPlan lists the methods in call order.
type DriverPlan struct {
	Service string       `json:"service"`
	Methods []MethodPlan `json:"methods"`
}

func methodKind(m Method) string {
	switch eff := EffectiveCallType(m); {
	case eff == "quorumcall" && m.Async:
		return "async"
	case eff == "correctable" && m.ServerStream:
		return "correctablestream"
	default:
		return eff
	}
}

// DriverSource returns the source of the driver main package for definition d
// generated into package ScratchModule/<pkg>. Go identifiers are taken from
// protogen (the library both plugins use), not re-derived.
func DriverSource(d Def, pkg string) (string, DriverPlan, error) {
	plan := DriverPlan{}
	if a := Analyze(d); a.Label != "legal" || a.Methods == 0 {
		return "", plan, fmt.Errorf("driver: definition is not documented-legal with methods (%s)", a.Label)
	}
	files := d.Descriptors(pkg)
	req := Request("", files, d.File.Name)
	req.CompilerVersion = &pluginpb.Version{}
	plug, err := protogen.Options{}.New(req)
	if err != nil {
		return "", plan, fmt.Errorf("driver: protogen: %v", err)
	}
	var pf *protogen.File
	for _, f := range plug.Files {
		if f.Desc.Path() == d.File.Name {
			pf = f
		}
	}
	if pf == nil || len(pf.Services) != 1 {
		return "", plan, fmt.Errorf("driver: expected one service")
	}
	svc := pf.Services[0]
	plan.Service = svc.GoName

	goType := func(id protogen.GoIdent) string {
		switch string(id.GoImportPath) {
		case ScratchModule + "/" + pkg:
			return "pb." + id.GoName
		case ScratchModule + "/" + pkg + "dep":
			return "dep." + id.GoName
		case "google.golang.org/protobuf/types/known/emptypb":
			return "emptypb." + id.GoName
		}
		return "UNKNOWN_PACKAGE_" + id.GoName
	}
	stamped := func(id protogen.GoIdent) bool {
		return string(id.GoImportPath) != "google.golang.org/protobuf/types/known/emptypb"
	}

	var srvB, qfB, callB strings.Builder
	for i, pm := range svc.Methods {
		dm := d.File.Services[0].Methods[i]
		in, out := goType(pm.Input.GoIdent), goType(pm.Output.GoIdent)
		res := out
		resStamped := stamped(pm.Output.GoIdent)
		if dm.CustomReturn != "" {
			cid := pm.Output.GoIdent
			cid.GoName = dm.CustomReturn
			res = goType(cid)
		}
		mp := MethodPlan{Name: dm.Name, GoName: pm.GoName, Kind: methodKind(dm), PerNode: dm.PerNodeArg, Custom: dm.CustomReturn != "",
			InStamped: stamped(pm.Input.GoIdent), OutStamped: stamped(pm.Output.GoIdent), ResStamped: resStamped}
		for j, om := range svc.Methods {
			odm := d.File.Services[0].Methods[j]
			if j == i || methodKind(odm) != mp.Kind {
				continue
			}
			oid := om.Output.GoIdent
			if odm.CustomReturn != "" {
				oid.GoName = odm.CustomReturn
			}
			rid := pm.Output.GoIdent
			if dm.CustomReturn != "" {
				rid.GoName = dm.CustomReturn
			}
			if oid.GoName == rid.GoName && oid.GoImportPath != rid.GoImportPath {
				mp.Twin = true
			}
		}
		plan.Methods = append(plan.Methods, mp)
		q := fmt.Sprintf("%q", dm.Name)

		// --- server handler
		switch mp.Kind {
		case "unicast", "multicast":
			fmt.Fprintf(&srvB, "func (s *srv) %s(ctx gorums.ServerCtx, request *%s) {\n\tvd.Handler(s.idx, %s, request)\n}\n\n", pm.GoName, in, q)
		case "correctablestream":
			fmt.Fprintf(&srvB, `func (s *srv) %s(ctx gorums.ServerCtx, request *%s, send func(response *%s) error) error {
	vd.Handler(s.idx, %s, request)
	for k := 1; k <= vd.StreamLen; k++ {
		r := &%s{}
		vd.Stamp(r, "rep:"+%s, uint64(k)*1000+uint64(s.id))
		if err := send(r); err != nil {
			return err
		}
	}
	return nil
}

`, pm.GoName, in, out, q, out, q)
		default:
			fmt.Fprintf(&srvB, `func (s *srv) %s(ctx gorums.ServerCtx, request *%s) (response *%s, err error) {
	vd.Handler(s.idx, %s, request)
	response = &%s{}
	vd.Stamp(response, "rep:"+%s, uint64(s.id))
	return response, nil
}

`, pm.GoName, in, out, q, out, q)
		}

		// --- quorum function
		switch mp.Kind {
		case "quorumcall", "async":
			fmt.Fprintf(&qfB, `func (qs) %sQF(in *%s, replies map[uint32]*%s) (*%s, bool) {
	out := &%s{}
	_, done := vd.QF(%s, in, vd.Replies(replies), out, false)
	return out, done
}

`, pm.GoName, in, out, res, res, q)
		case "correctable", "correctablestream":
			fmt.Fprintf(&qfB, `func (qs) %sQF(in *%s, replies map[uint32]*%s) (*%s, int, bool) {
	out := &%s{}
	level, done := vd.QF(%s, in, vd.Replies(replies), out, %v)
	return out, level, done
}

`, pm.GoName, in, out, res, res, q, mp.Kind == "correctablestream")
		}

		// --- client call
		perNode := ""
		if dm.PerNodeArg {
			perNode = fmt.Sprintf(", func(req *%s, nid uint32) *%s { return vd.PerNode(%s, req, nid).(*%s) }", in, in, q, in)
		}
		fmt.Fprintf(&callB, "\tvd.Call(%s, %q, func(ctx context.Context) vd.Result {\n\t\treq := &%s{}\n\t\tvd.Stamp(req, \"req:\"+%s, vd.ReqNum)\n", q, mp.Kind, in, q)
		switch mp.Kind {
		case "rpc":
			fmt.Fprintf(&callB, "\t\tresp, err := node.%s(ctx, req%s)\n\t\treturn vd.Res(resp, err)\n", pm.GoName, perNode)
		case "unicast":
			fmt.Fprintf(&callB, "\t\tnode.%s(ctx, req)\n\t\treturn vd.Result{OneWay: true}\n", pm.GoName)
		case "multicast":
			fmt.Fprintf(&callB, "\t\tcfg.%s(ctx, req%s)\n\t\treturn vd.Result{OneWay: true}\n", pm.GoName, perNode)
		case "quorumcall":
			fmt.Fprintf(&callB, "\t\tresp, err := cfg.%s(ctx, req%s)\n\t\treturn vd.Res(resp, err)\n", pm.GoName, perNode)
		case "async":
			fmt.Fprintf(&callB, "\t\tfut := cfg.%s(ctx, req%s)\n\t\tresp, err := fut.Get()\n\t\treturn vd.Res(resp, err)\n", pm.GoName, perNode)
		case "correctable", "correctablestream":
			fmt.Fprintf(&callB, `		corr := cfg.%s(ctx, req%s)
		// the typed accessor may be used at any moment, also before the first reply
		_, _, _ = corr.Get()
		select {
		case <-corr.Done():
		case <-ctx.Done():
			return vd.Result{TimedOut: true}
		}
		resp, level, err := corr.Get()
		return vd.ResLevel(resp, level, err)
`, pm.GoName, perNode)
		}
		targets := DrvServers
		if mp.Kind == "rpc" || mp.Kind == "unicast" {
			targets = 1
		}
		fmt.Fprintf(&callB, "\t})\n\tvd.AwaitHandlers(%s, %d)\n\n", q, targets)
	}

	// import what the emitted code mentions
	body := srvB.String() + qfB.String() + callB.String()
	usedEmpty := strings.Contains(body, "emptypb.")
	usedDep := strings.Contains(body, "dep.")
	var b strings.Builder
	b.WriteString("// Code generated by the verification harness (C17 part 2). DO NOT EDIT.\npackage main\n\nimport (\n\t\"context\"\n\n\t\"github.com/relab/gorums\"\n")
	if usedEmpty {
		b.WriteString("\t\"google.golang.org/protobuf/types/known/emptypb\"\n")
	}
	b.WriteString("\n\tpb \"" + ScratchModule + "/" + pkg + "\"\n")
	if usedDep {
		b.WriteString("\tdep \"" + ScratchModule + "/" + pkg + "dep\"\n")
	}
	b.WriteString("\tvd \"" + ScratchModule + "/vdrv\"\n)\n\n")
	b.WriteString("type srv struct {\n\tidx int\n\tid  uint32\n}\n\n")
	b.WriteString(srvB.String())
	b.WriteString("type qs struct{}\n\n")
	b.WriteString(qfB.String())
	fmt.Fprintf(&b, `var _ pb.%s = (*srv)(nil)
var _ pb.QuorumSpec = qs{}
var _ = context.Background

func main() {
	defer vd.Finish()
	addrs, stop := vd.StartServers(func(i int, id uint32, s *gorums.Server) {
		pb.Register%sServer(s, &srv{idx: i, id: id})
	})
	defer stop()
	mgr := pb.NewManager(vd.ManagerOptions()...)
	defer mgr.Close()
	cfg, err := mgr.NewConfiguration(qs{}, gorums.WithNodeMap(addrs))
	if err != nil {
		vd.Fatal("NewConfiguration: " + err.Error())
		return
	}
	var node *pb.Node
	for _, n := range cfg.Nodes() {
		if n.ID() == vd.IDs[vd.RPCNode] {
			node = n
		}
	}
	if node == nil || cfg.Size() != vd.N {
		vd.Fatal("configuration does not hold the three nodes")
		return
	}
	_ = node

`, svc.GoName, svc.GoName)
	b.WriteString(callB.String())
	b.WriteString("\tvd.Settle()\n}\n")
	return b.String(), plan, nil
}

// VdrvSource is the fixed helper package ScratchModule/vdrv the drivers link.
const VdrvSource = `// Package vdrv is the recording runtime of the generated C17 drivers.
package vdrv

import (
	"context"
	"encoding/json"
	"fmt"
	"net"
	"os"
	"runtime/debug"
	"sync"
	"time"

	"github.com/relab/gorums"
	"google.golang.org/grpc"
	"google.golang.org/grpc/credentials/insecure"
	"google.golang.org/protobuf/proto"
	"google.golang.org/protobuf/reflect/protoreflect"
)

const (
	N         = 3
	StreamLen = 3
	ReqNum    = 7
	RPCNode   = 1
)

var IDs = []uint32{11, 12, 13}

type Rep struct {
	Stamp   string ` + "`json:\"stamp\"`" + `
	Num     uint64 ` + "`json:\"num\"`" + `
	Stamped bool   ` + "`json:\"stamped\"`" + `
	Nil     bool   ` + "`json:\"nil,omitempty\"`" + `
}

type Event struct {
	Kind    string         ` + "`json:\"kind\"`" + ` // start handler pernode qf end
	Method  string         ` + "`json:\"method\"`" + `
	Srv     int            ` + "`json:\"srv\"`" + `
	Node    uint32         ` + "`json:\"node,omitempty\"`" + `
	Msg     Rep            ` + "`json:\"msg\"`" + `
	Replies map[uint32]Rep ` + "`json:\"replies,omitempty\"`" + `
	Seq     int            ` + "`json:\"seq,omitempty\"`" + `
	Done    bool           ` + "`json:\"done,omitempty\"`" + `
	Level   int            ` + "`json:\"level,omitempty\"`" + `
	Result  *Result        ` + "`json:\"result,omitempty\"`" + `
}

type Result struct {
	OneWay   bool   ` + "`json:\"one_way,omitempty\"`" + `
	TimedOut bool   ` + "`json:\"timed_out,omitempty\"`" + `
	Err      string ` + "`json:\"err,omitempty\"`" + `
	Panic    string ` + "`json:\"panic,omitempty\"`" + `
	Msg      Rep    ` + "`json:\"msg\"`" + `
	HasLevel bool   ` + "`json:\"has_level,omitempty\"`" + `
	Level    int    ` + "`json:\"level,omitempty\"`" + `
	Missing  int    ` + "`json:\"handlers_missing,omitempty\"`" + `
}

type Log struct {
	Events []Event ` + "`json:\"events\"`" + `
	Fatal  string  ` + "`json:\"fatal,omitempty\"`" + `
}

var (
	mu      sync.Mutex
	events  []Event
	fatal   string
	qfSeq   = map[string]int{}
	cancels []context.CancelFunc
)

func add(e Event) {
	mu.Lock()
	events = append(events, e)
	mu.Unlock()
}

func read(m proto.Message) Rep {
	if m == nil || !m.ProtoReflect().IsValid() {
		return Rep{Nil: true}
	}
	r := m.ProtoReflect()
	fs := r.Descriptor().Fields()
	sf, nf := fs.ByName("stamp"), fs.ByName("num")
	if sf == nil || nf == nil || sf.Kind() != protoreflect.StringKind || nf.Kind() != protoreflect.Uint64Kind {
		return Rep{}
	}
	return Rep{Stamp: r.Get(sf).String(), Num: r.Get(nf).Uint(), Stamped: true}
}

// Stamp sets the stamp fields of a message that has them.
func Stamp(m proto.Message, stamp string, num uint64) {
	r := m.ProtoReflect()
	fs := r.Descriptor().Fields()
	sf, nf := fs.ByName("stamp"), fs.ByName("num")
	if sf == nil || nf == nil || sf.Kind() != protoreflect.StringKind || nf.Kind() != protoreflect.Uint64Kind {
		return
	}
	r.Set(sf, protoreflect.ValueOfString(stamp))
	r.Set(nf, protoreflect.ValueOfUint64(num))
}

// Handler records that handler method ran on server srv with the request.
func Handler(srv int, method string, req proto.Message) {
	add(Event{Kind: "handler", Method: method, Srv: srv, Msg: read(req)})
}

// PerNode is the per-node function: a copy of the request stamped with the node id.
func PerNode(method string, req proto.Message, nid uint32) proto.Message {
	add(Event{Kind: "pernode", Method: method, Node: nid, Msg: read(req)})
	c := proto.Clone(req)
	Stamp(c, "pn:"+method, uint64(nid))
	return c
}

// Replies converts a typed reply map.
func Replies[M proto.Message](m map[uint32]M) map[uint32]proto.Message {
	out := make(map[uint32]proto.Message, len(m))
	for k, v := range m {
		out[k] = v
	}
	return out
}

// QF is the recording quorum function: done once every node has answered
// (for streams: once N*StreamLen invocations have happened, i.e. every
// streamed reply has been delivered); the value it builds is stamped with the
// method and the invocation number, which is also the level.
func QF(method string, in proto.Message, replies map[uint32]proto.Message, out proto.Message, stream bool) (int, bool) {
	mu.Lock()
	qfSeq[method]++
	seq := qfSeq[method]
	mu.Unlock()
	rs := make(map[uint32]Rep, len(replies))
	for k, v := range replies {
		rs[k] = read(v)
	}
	done := len(replies) == N
	if stream {
		done = seq >= N*StreamLen
	}
	Stamp(out, "qf:"+method, uint64(seq))
	add(Event{Kind: "qf", Method: method, Msg: read(in), Replies: rs, Seq: seq, Done: done, Level: seq})
	return seq, done
}

// Res builds the result of a call that returns a message.
func Res(m proto.Message, err error) Result {
	r := Result{Msg: read(m)}
	if err != nil {
		r.Err = err.Error()
	}
	return r
}

// ResLevel builds the result of a correctable call.
func ResLevel(m proto.Message, level int, err error) Result {
	r := Res(m, err)
	r.HasLevel, r.Level = true, level
	return r
}

// Call runs one stub invocation with a deadline and records its result.
func Call(method, kind string, fn func(ctx context.Context) Result) {
	add(Event{Kind: "start", Method: method})
	// The context is deliberately not cancelled when the call returns (only at
	// the end of the driver): in gorums a context that ends right after its
	// call completed can still cancel the node's stream (sendMsg's watcher
	// may observe ctx.Done before close(done)) and fail the next call with
	// "stream is down" - a runtime matter (C09), not a binding matter.
	ctx, cancel := context.WithTimeout(context.Background(), 60*time.Second)
	mu.Lock()
	cancels = append(cancels, cancel)
	mu.Unlock()
	ch := make(chan Result, 1)
	go func() {
		defer func() {
			if p := recover(); p != nil {
				ch <- Result{Panic: fmt.Sprint(p) + "\n" + string(debug.Stack())}
			}
		}()
		ch <- fn(ctx)
	}()
	var r Result
	select {
	case r = <-ch:
	case <-time.After(12 * time.Second):
		r = Result{TimedOut: true}
	}
	add(Event{Kind: "end", Method: method, Result: &r})
}

// AwaitHandlers waits until n handler runs of method have been recorded
// (one-way calls return before their handlers ran).
func AwaitHandlers(method string, n int) {
	deadline := time.Now().Add(5 * time.Second)
	for {
		mu.Lock()
		c := 0
		for _, e := range events {
			if e.Kind == "handler" && e.Method == method {
				c++
			}
		}
		mu.Unlock()
		if c >= n || time.Now().After(deadline) {
			return
		}
		time.Sleep(time.Millisecond)
	}
}

// Settle gives stray handler runs a moment to show up.
func Settle() { time.Sleep(100 * time.Millisecond) }

func Fatal(msg string) {
	mu.Lock()
	fatal = msg
	mu.Unlock()
}

// Finish prints the log.
func Finish() {
	if p := recover(); p != nil {
		Fatal("driver panic: " + fmt.Sprint(p) + "\n" + string(debug.Stack()))
	}
	mu.Lock()
	defer mu.Unlock()
	b, _ := json.Marshal(Log{Events: events, Fatal: fatal})
	os.Stdout.Write(append(b, '\n'))
	for _, c := range cancels {
		c()
	}
}

// StartServers starts N gorums servers on loopback TCP listeners.
func StartServers(reg func(i int, id uint32, s *gorums.Server)) (map[string]uint32, func()) {
	addrs := map[string]uint32{}
	var srvs []*gorums.Server
	for i := 0; i < N; i++ {
		lis, err := net.Listen("tcp", "127.0.0.1:0")
		if err != nil {
			panic("listen: " + err.Error())
		}
		s := gorums.NewServer()
		reg(i, IDs[i], s)
		addrs[lis.Addr().String()] = IDs[i]
		srvs = append(srvs, s)
		go func() { _ = s.Serve(lis) }()
	}
	return addrs, func() {
		for _, s := range srvs {
			s.Stop()
		}
	}
}

func ManagerOptions() []gorums.ManagerOption {
	return []gorums.ManagerOption{
		gorums.WithDialTimeout(5 * time.Second),
		gorums.WithGrpcDialOptions(grpc.WithBlock(), grpc.WithTransportCredentials(insecure.NewCredentials())),
	}
}
`

// ---------------------------------------------------------------- oracle

// DrvRep mirrors vdrv.Rep.
type DrvRep struct {
	Stamp   string `json:"stamp"`
	Num     uint64 `json:"num"`
	Stamped bool   `json:"stamped"`
	Nil     bool   `json:"nil,omitempty"`
}

// DrvResult mirrors vdrv.Result.
type DrvResult struct {
	OneWay   bool   `json:"one_way,omitempty"`
	TimedOut bool   `json:"timed_out,omitempty"`
	Err      string `json:"err,omitempty"`
	Panic    string `json:"panic,omitempty"`
	Msg      DrvRep `json:"msg"`
	HasLevel bool   `json:"has_level,omitempty"`
	Level    int    `json:"level,omitempty"`
}

// DrvEvent mirrors vdrv.Event.
type DrvEvent struct {
	Kind    string            `json:"kind"`
	Method  string            `json:"method"`
	Srv     int               `json:"srv"`
	Node    uint32            `json:"node,omitempty"`
	Msg     DrvRep            `json:"msg"`
	Replies map[uint32]DrvRep `json:"replies,omitempty"`
	Seq     int               `json:"seq,omitempty"`
	Done    bool              `json:"done,omitempty"`
	Level   int               `json:"level,omitempty"`
	Result  *DrvResult        `json:"result,omitempty"`
}

// DrvLog mirrors vdrv.Log.
type DrvLog struct {
	Events []DrvEvent `json:"events"`
	Fatal  string     `json:"fatal,omitempty"`
}

// Binding is one violated clause of C17 part 2. Msg is a deterministic
// function of the definition and the violated clause (rapid's shrinker needs a
// reproducible message); what was observed in this particular run is in Detail.
type Binding struct {
	Key    string // C17/binding/<kind…>/<what>
	Msg    string
	Detail string
}

// CheckDriverLog evaluates the oracle of C17 part 2 on a driver log: calling
// stub M runs handler M and only M on every targeted server with the request
// that was sent (the per-node variant where declared); replies reach the quorum
// function under the right node id with the right method stamp; the stub's
// result is the value the quorum function built; one-way methods produce no
// reply but run the handler once per node; every streamed reply reaches the
// quorum function.
func CheckDriverLog(plan DriverPlan, lg DrvLog) []Binding {
	var out []Binding
	bad := func(mp MethodPlan, opt, what, msg, detailFormat string, args ...any) {
		k := mp.Kind
		if opt != "" {
			k += "+" + opt
		}
		out = append(out, Binding{Key: "C17/binding/" + k + "/" + what, Msg: fmt.Sprintf("method %s (%s): %s", mp.Name, k, msg), Detail: fmt.Sprintf(detailFormat, args...)})
	}
	ids := map[uint32]int{}
	for i := 0; i < DrvServers; i++ {
		ids[uint32(DrvFirstID+i)] = i
	}
	// split the log into the windows of the calls
	type window struct {
		events []DrvEvent
		end    *DrvResult
	}
	wins := map[string]*window{}
	cur := ""
	for _, e := range lg.Events {
		switch e.Kind {
		case "start":
			cur = e.Method
			wins[cur] = &window{}
		case "end":
			if w := wins[e.Method]; w != nil {
				w.end = e.Result
			}
		default:
			if w := wins[cur]; w != nil {
				w.events = append(w.events, e)
			}
		}
	}
	for _, mp := range plan.Methods {
		w := wins[mp.Name]
		if w == nil || w.end == nil {
			bad(mp, "", "not-called", "the driver did not get to call the stub", "fatal: %s", trim(lg.Fatal, 300))
			continue
		}
		res := w.end
		perNodeOpt := ""
		if mp.PerNode {
			perNodeOpt = "per_node_arg"
		}
		customOpt := ""
		if mp.Custom {
			customOpt = "custom_return_type"
		}
		// everything recorded between this call's start and the next call's
		// start must belong to this method
		handlers := map[int][]DrvEvent{}
		var qfs []DrvEvent
		perNodes := map[uint32]int{}
		for _, e := range w.events {
			if e.Method != mp.Name {
				bad(mp, "", "foreign-"+e.Kind, "calling the stub made the "+e.Kind+" of another method run", "%s of method %s", e.Kind, e.Method)
				continue
			}
			switch e.Kind {
			case "handler":
				handlers[e.Srv] = append(handlers[e.Srv], e)
			case "qf":
				qfs = append(qfs, e)
			case "pernode":
				perNodes[e.Node]++
			}
		}
		if res.Panic != "" {
			what, opt := "panic", customOpt
			if mp.Twin && strings.Contains(res.Panic, "interface conversion") {
				// two result types with one base name share one generated promise type
				// (one root cause per promise kind, whether or not the type is a custom return type)
				what, opt = "panic/same-base-name-types", ""
			}
			bad(mp, opt, what, "the stub panicked: "+firstLines(res.Panic, 1), "%s", trim(res.Panic, 1500))
			continue
		}
		if res.TimedOut {
			bad(mp, "", "timeout", "the call did not complete within 12 s", "handlers run on %d servers, %d quorum function invocations", len(handlers), len(qfs))
			continue
		}
		// handlers
		targets := map[int]bool{}
		if mp.Kind == "rpc" || mp.Kind == "unicast" {
			targets[DrvRPCNode] = true
		} else {
			for i := 0; i < DrvServers; i++ {
				targets[i] = true
			}
		}
		for s := 0; s < DrvServers; s++ {
			hs := handlers[s]
			switch {
			case targets[s] && len(hs) == 0:
				bad(mp, "", "handler-not-run", "the handler did not run on every targeted server", "server %d", s)
			case targets[s] && len(hs) > 1:
				bad(mp, "", "handler-ran-twice", "the handler ran more than once on a server", "%d times on server %d", len(hs), s)
			case !targets[s] && len(hs) > 0:
				bad(mp, "", "handler-on-untargeted-server", "the handler ran on a server that was not targeted", "server %d", s)
			}
			if targets[s] && len(hs) >= 1 && mp.InStamped {
				got := hs[0].Msg
				wantStamp, wantNum := "req:"+mp.Name, uint64(DrvReqNum)
				if mp.PerNode && mp.Kind != "rpc" && mp.Kind != "unicast" {
					wantStamp, wantNum = "pn:"+mp.Name, uint64(DrvFirstID+s)
				}
				if got.Stamp != wantStamp || got.Num != wantNum {
					bad(mp, perNodeOpt, "request-mismatch", "a server received a request that differs from the one sent to it", "server %d received {%q %d}, sent {%q %d}", s, got.Stamp, got.Num, wantStamp, wantNum)
				}
			}
		}
		// per-node function
		if mp.PerNode && mp.Kind != "rpc" && mp.Kind != "unicast" {
			for id := range ids {
				if perNodes[id] != 1 {
					bad(mp, perNodeOpt, "per-node-function-calls", "the per-node function was not called exactly once per node", "%d times for node %d", perNodes[id], id)
				}
			}
		} else if len(perNodes) > 0 {
			bad(mp, "", "per-node-function-calls", "a per-node function ran although none was declared", "")
		}
		// quorum function
		hasQF := mp.Kind == "quorumcall" || mp.Kind == "async" || mp.Kind == "correctable" || mp.Kind == "correctablestream"
		if !hasQF {
			if len(qfs) > 0 {
				bad(mp, "", "unexpected-quorum-function", "a quorum function ran for a method without one", "")
			}
			if mp.Kind == "rpc" {
				if res.Err != "" {
					bad(mp, "", "call-error", "the call failed", "%s", res.Err)
				} else if res.Msg.Nil {
					bad(mp, "", "result", "nil reply without error", "")
				} else if mp.OutStamped && (res.Msg.Stamp != "rep:"+mp.Name || res.Msg.Num != uint64(DrvFirstID+DrvRPCNode)) {
					bad(mp, "", "result", "the reply is not the one the handler on the called node sent", "got {%q %d}, the handler answered {%q %d}", res.Msg.Stamp, res.Msg.Num, "rep:"+mp.Name, DrvFirstID+DrvRPCNode)
				}
			}
			continue
		}
		if res.Err != "" {
			bad(mp, "", "call-error", "the call failed", "%s", res.Err)
			continue
		}
		if len(qfs) == 0 {
			bad(mp, "", "quorum-function-not-run", "the quorum function never ran", "")
			continue
		}
		seen := map[[2]uint64]bool{}
		for _, q := range qfs {
			if mp.InStamped && (q.Msg.Stamp != "req:"+mp.Name || q.Msg.Num != DrvReqNum) {
				bad(mp, "", "quorum-function-request", "the quorum function did not get the request the call was made with", "got {%q %d}, the call was made with {%q %d}", q.Msg.Stamp, q.Msg.Num, "req:"+mp.Name, DrvReqNum)
				break
			}
			for id, r := range q.Replies {
				if _, ok := ids[id]; !ok {
					bad(mp, "", "reply-under-unknown-node", "the quorum function got a reply under an unknown node id", "node id %d", id)
					continue
				}
				if r.Nil {
					bad(mp, "", "reply-nil", "the quorum function got a nil reply", "node %d", id)
					continue
				}
				if !mp.OutStamped {
					continue
				}
				if r.Stamp != "rep:"+mp.Name {
					bad(mp, "", "reply-of-other-method", "the quorum function got a reply that the method's handler did not send", "stamp %q", r.Stamp)
				} else if r.Num%1000 != uint64(id) {
					bad(mp, "", "reply-under-wrong-node", "a reply was delivered under another node's id", "reply of node %d under id %d", r.Num%1000, id)
				}
				seen[[2]uint64{uint64(id), r.Num / 1000}] = true
			}
		}
		last := qfs[len(qfs)-1]
		if !last.Done {
			bad(mp, "", "returned-before-quorum", "the call returned although the last quorum function invocation reported no quorum", "")
			continue
		}
		if len(last.Replies) != DrvServers {
			bad(mp, "", "replies-missing", "the final quorum function invocation did not see a reply of every node", "%d replies", len(last.Replies))
		}
		if mp.Kind == "correctablestream" {
			if len(qfs) != DrvServers*DrvStreamLen {
				bad(mp, "", "stream-invocations", "the quorum function was not invoked once per streamed reply", "%d invocations for %d replies", len(qfs), DrvServers*DrvStreamLen)
			}
			if mp.OutStamped {
				for id := range ids {
					for k := 1; k <= DrvStreamLen; k++ {
						if !seen[[2]uint64{uint64(id), uint64(k)}] {
							bad(mp, "", "stream-reply-lost", "a streamed reply never reached the quorum function", "reply %d of node %d", k, id)
						}
					}
				}
			}
		}
		// the stub's result is the value the quorum function built
		switch {
		case res.Msg.Nil:
			bad(mp, customOpt, "result", "nil result without error", "")
		case mp.ResStamped && (res.Msg.Stamp != "qf:"+mp.Name || res.Msg.Num != uint64(last.Seq)):
			what := "the stub's result is not the value the quorum function built"
			if strings.HasPrefix(res.Msg.Stamp, "rep:") {
				what += " (it is a node's reply)"
			}
			bad(mp, customOpt, "result-not-from-quorum-function", what, "the stub returned {%q %d}; the quorum function built {%q %d}", res.Msg.Stamp, res.Msg.Num, "qf:"+mp.Name, last.Seq)
		}
		if res.HasLevel && res.Level != last.Level {
			bad(mp, "", "level-not-from-quorum-function", "the level the stub reports is not the one the quorum function returned with its final value", "stub %d, quorum function %d", res.Level, last.Level)
		}
	}
	// stable order, duplicates removed
	sort.SliceStable(out, func(i, j int) bool { return out[i].Key < out[j].Key })
	var uniq []Binding
	for i, b := range out {
		if i == 0 || b.Key != out[i-1].Key {
			uniq = append(uniq, b)
		}
	}
	return uniq
}
