#!/usr/bin/env python3
"""tools/seedtable.py <round> : prints the markdown table rows of DESIGN.md section 10.x for the seeded
changes of that round from /verif/seeded/<ID>[-r<round>]/meta.json, and a summary line."""
import json, os, sys
rnd = int(sys.argv[1])
rows, caught, missed, notcaught = [], [], [], []
for i in range(1, 20):
    pid = "C%02d" % i
    name = pid if rnd == 1 else "%s-r%d" % (pid, rnd)
    if not os.path.exists("/verif/seeded/%s/meta.json" % name):
        continue  # a round may cover a subset of the properties
    m = json.load(open("/verif/seeded/%s/meta.json" % name))
    summ = (m.get("summary") or "").replace("\n", " ").replace("|", "/")[:170]
    det = m["detection"]
    by = det["by"].replace("\n", " ").replace("|", "/")
    if det["result"].startswith("caught"):
        out = "caught: " + by[:330]
        caught.append(pid)
    elif det["result"] == "missed":
        out = "**not caught**: " + by[:900]
        notcaught.append(pid)
    else:
        out = "**missed-then-caught**: " + by[:560]
        missed.append(pid)
    rows.append("| %s | %s | %s |" % (name, summ, out))
print("| id | seeded change | outcome |\n|----|---------------|---------|")
print("\n".join(rows))
print("\ncaught as they were: %d (%s); missed then caught: %d (%s); not caught: %d (%s)" % (len(caught), " ".join(caught), len(missed), " ".join(missed), len(notcaught), " ".join(notcaught)), file=sys.stderr)
