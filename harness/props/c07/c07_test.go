// C07 — minority failures are tolerated; every failing node is reported exactly once.
package c07

import (
	"testing"

	"pgregory.net/rapid"

	"verif/qeng"
	"verif/vt"
)

func gen(t *rapid.T) qeng.Case {
	c := qeng.Gen(t, qeng.Bias{Kinds: qeng.QCKinds(), MaxN: 7, AllowDown: true, AllowStop: true, AllowSilent: false, AllowCtx: false, AllCodes: true})
	return c
}

func run(c qeng.Case) vt.Verdict {
	r := qeng.Run(c)
	if r.SetupErr != "" {
		return vt.Verdict{OK: true, Inconclusive: true, Msg: r.SetupErr, Classes: []string{"setup-error"}}
	}
	classes, _ := qeng.Classes(c, r)
	v, extra, nontrivial := qeng.CheckC07(c, r)
	classes = append(classes, extra...)
	if v != nil {
		return vt.Verdict{OK: false, Key: v.Key, Msg: v.Msg, History: r.Events, Classes: classes}
	}
	res := vt.Pass(nontrivial, classes...)
	if r.Late {
		res.Inconclusive = true
	}
	return res
}

func TestProp(t *testing.T) {
	vt.Main(t, vt.Spec[qeng.Case]{
		ID:           "C07",
		Rule:         "fault enumeration by generation: 1-7 servers, a failing subset of any size, per failing node a kind from {never started, stopped at a generated position of the script (before the request is answered, while its handler is held, after its reply), handler status error with any of the 16 non-OK codes and a generated message, non-status Go error, reply together with an error}, thresholds 1..n+1 and value-dependent scripts, sync and async; oracle: success when the healthy replies satisfy the script, completion (never left waiting) once every node answered or failed, exactly one 'node <id>:' line per failing node and none for healthy ones, handler code and message intact, connection failures of unavailable type, no reply entry for a failing node; non-trivial = at least one failing node and (a stop after the handler was entered, or two different failure kinds, or a handler error)",
		Gen:          gen,
		Run:          run,
		TrackCurrent: true,
	})
}
