// C04 — one handler at a time per connection until Release.
package c04

import (
	"fmt"
	"testing"

	"pgregory.net/rapid"

	"verif/peng"
	"verif/scen"
	"verif/vt"
)

var releaseModes = []string{"", "", "early", "early", "twice", "helper", "helper-late", "early+helper-late", "concurrent"}

// genManyReleased: one client keeps 100-320 handlers per server running that have all called
// Release (they wait at their gates until tear-down); every client - the same one and another
// one - must still be served: released handlers do not count against anybody.
func genManyReleased(t *rapid.T) peng.Case {
	n := rapid.IntRange(1, 2).Draw(t, "n")
	c := peng.Case{N: n, Threads: 2, HoldAtEnd: true, Probe: true}
	c.Mgrs = []scen.MgrOpts{{SendBuffer: rapid.SampledFrom([]uint{0, 8}).Draw(t, "sendBuffer"), DialTimeoutMs: 50, BackoffMs: 20},
		{DialTimeoutMs: 50, BackoffMs: 20}}
	k := rapid.IntRange(100, 320).Draw(t, "released")
	kind := rapid.SampledFrom([]string{"Multicast", "Async", "Corr", "Unicast"}).Draw(t, "kind")
	for i := 0; i < k; i++ {
		op := peng.Op{Kind: "call", Thread: 0, Mgr: 0, Behav: map[int]scen.Behaviour{}}
		op.Call = scen.CallSpec{Kind: kind, Ctx: "cancel", NoSendWait: true, Script: scen.QScript{Kind: "threshold", Q: n}}
		for s := 0; s < n; s++ {
			op.Behav[s] = scen.Behaviour{Gate: true, Release: "early"}
		}
		c.Ops = append(c.Ops, op)
	}
	return c
}

func gen(t *rapid.T) peng.Case {
	if rapid.IntRange(0, 24).Draw(t, "manyReleased") == 0 {
		return genManyReleased(t)
	}
	c := peng.GenProgram(t, peng.Bias{MinN: 1, MaxN: 3, MaxThreads: 3, MinOps: 3, MaxOps: 25, MaxMgrs: 3, Kinds: scen.AllKinds, Barriers: true,
		MaxSleepUs: 2500, HoldNoRelUs: 5000, StreamItems: 3, AwaitProb: 3, ErrorNodes: true, FullQuorum: true, ReleaseModes: releaseModes})
	// requests for a method that the servers have no handler for, somewhere among the calls: the
	// connection's later requests are served one at a time all the same
	if rapid.IntRange(0, 3).Draw(t, "unknownMethod") == 0 {
		for k := rapid.IntRange(1, 2).Draw(t, "nUnknown"); k > 0; k-- {
			pos := rapid.IntRange(0, len(c.Ops)).Draw(t, fmt.Sprintf("unknownPos%d", k))
			op := peng.Op{Kind: "unknown", Thread: rapid.IntRange(0, c.Threads-1).Draw(t, fmt.Sprintf("unknownThr%d", k)),
				Mgr: rapid.IntRange(0, len(c.Mgrs)-1).Draw(t, fmt.Sprintf("unknownMgr%d", k)), Call: scen.CallSpec{Node: rapid.IntRange(0, c.N-1).Draw(t, fmt.Sprintf("unknownNode%d", k))}}
			c.Ops = append(c.Ops[:pos], append([]peng.Op{op}, c.Ops[pos:]...)...)
		}
	}
	// every op targets few servers so that handlers of one connection queue up behind each other
	if len(c.Mgrs) >= 2 && rapid.Bool().Draw(t, "neverReleasing") {
		// a handler that never releases (until teardown) on manager 0's connection; the
		// other managers must still be served. The held calls come last on that connection.
		nheld := rapid.IntRange(1, 2).Draw(t, "nheld")
		c.Ops = append(c.Ops, peng.Op{Kind: "barrier"}) // every earlier call has returned / been issued
		for i := 0; i < nheld; i++ {
			kind := rapid.SampledFrom([]string{"Multicast", "Unicast", "Async", "Corr"}).Draw(t, fmt.Sprintf("heldKind%d", i))
			op := peng.Op{Kind: "call", Thread: 0, Mgr: 0, Behav: map[int]scen.Behaviour{}}
			op.Call = scen.CallSpec{Kind: kind, Ctx: "cancel", NoSendWait: true, Script: scen.QScript{Kind: "threshold", Q: 1}}
			op.Call.Node = rapid.IntRange(0, c.N-1).Draw(t, fmt.Sprintf("heldNode%d", i))
			for s := 0; s < c.N; s++ {
				op.Behav[s] = scen.Behaviour{Gate: true}
			}
			c.Ops = append(c.Ops, op)
		}
		if rapid.Bool().Draw(t, "lateRegistration") {
			// while the handlers are held (and nothing else is arriving) one more handler is
			// registered on a running server, as an application that adds a service late would
			c.Ops = append(c.Ops, peng.Op{Kind: "sleep", Thread: 0, Us: 2000},
				peng.Op{Kind: "register", Thread: 0, Call: scen.CallSpec{Node: rapid.IntRange(0, c.N-1).Draw(t, "registerOn")}})
		}
		c.HoldAtEnd = true
		c.Probe = true
		for m := 1; m < len(c.Mgrs); m++ {
			c.ProbeMgrs = append(c.ProbeMgrs, m)
		}
	}
	return c
}

func run(c peng.Case) vt.Verdict {
	r := peng.Run(c, peng.Hooks{})
	if r.SetupErr != "" {
		return vt.Verdict{OK: true, Inconclusive: true, Msg: r.SetupErr, Classes: []string{"setup-error"}}
	}
	v, classes, nontrivial := peng.CheckC04(c, r)
	for _, op := range c.Ops {
		if op.Kind == "unknown" {
			classes = append(classes, "unknown-method-request")
			break
		}
	}
	if v != nil {
		return vt.Verdict{OK: false, Key: v.Key, Msg: v.Msg, History: r.Events, Classes: classes}
	}
	res := vt.Pass(nontrivial, classes...)
	res.Inconclusive = r.Late
	return res
}

func TestProp(t *testing.T) {
	vt.Main(t, vt.Spec[peng.Case]{
		ID:           "C04",
		Rule:         "rapid-generated programs of 3-25 calls of all kinds from 1-3 client managers (one connection each per server) against 1-3 servers, in a quarter of the programs with 1-2 requests for a method the servers have no handler for among them; per (server, call) a handler behaviour from {return at once, timed hold then return, Release early then keep running, Release twice, Release from a helper goroutine before / after the handler returns, several goroutines racing to Release, never release until teardown}; oracle over the event log: per connection never more than one handler that has started and neither released nor returned (release is logged before Release is called), replies of released handlers reach their own call (provenance) and are not lost (a call that the harness did not cancel fails only with errors its handlers returned), probes of other managers are answered while a never-releasing handler of manager 0 is held (in half of these cases one more handler is registered on a running server meanwhile), and (1 case in 25) probes of every manager are answered while 100-320 handlers per server that have all called Release are still running, every call ends (a synchronous call blocked in its stub counts), no crash; non-trivial = a released handler observed overlapping a later one (measured), a double / helper-goroutine / concurrent release, or a second client",
		Gen:          gen,
		Run:          run,
		TrackCurrent: true,
	})
}
