package scen

import (
	"sync/atomic"
	"time"

	"google.golang.org/protobuf/proto"

	"verif/puppet"
)

// qspec is the recording QuorumSpec: every invocation is logged with a
// snapshot of what it was shown, and answers what the call's script says.
type qspec struct {
	c *Client
}

type qfResult struct {
	done  bool
	level int
	nonce uint64
}

func (q *qspec) eval(call *Call, n int, replies map[uint32]*puppet.Rep) (bool, int) {
	sc := call.Spec.Script
	switch sc.Kind {
	case "", "threshold":
		return len(replies) >= sc.Q, len(replies)
	case "needs":
		id := q.c.IDs[sc.Node%len(q.c.IDs)]
		if !IsNodeCall(call.Spec.Kind) && q.c.IsAlias(call.Spec.Config) {
			id = AliasID(sc.Node % len(q.c.IDs))
		}
		_, ok := replies[id]
		return ok && len(replies) >= sc.Q, len(replies)
	case "equal":
		cnt := map[uint64]int{}
		best := 0
		for _, r := range replies {
			h := HashBytes(r.GetPayload())
			cnt[h]++
			if cnt[h] > best {
				best = cnt[h]
			}
		}
		return best >= sc.Q, best
	case "table":
		if len(sc.Table) == 0 {
			return false, 0
		}
		i := n - 1
		if i >= len(sc.Table) {
			i = len(sc.Table) - 1
		}
		return sc.Table[i].Done, sc.Table[i].Level
	case "never":
		return false, len(replies)
	}
	return false, 0
}

func (q *qspec) common(method string, in *puppet.Req, replies map[uint32]*puppet.Rep) qfResult {
	log := q.c.Cl.Log
	call := q.c.lookup(in.GetToken())
	if call == nil {
		log.Add(Event{Kind: "qf-unknown", Call: -1, Server: -1, Token: in.GetToken(), Method: method})
		return qfResult{}
	}
	infl := int(atomic.AddInt32(&call.inflight, 1))
	defer atomic.AddInt32(&call.inflight, -1)
	n := int(atomic.AddInt32(&call.qfN, 1))
	after := call.Returned()
	snap := make(map[uint32]RepSnap, len(replies))
	for id, r := range replies {
		snap[id] = snapRep(r)
	}
	reqOK := proto.Equal(in, call.ReqCp)
	done, level := q.eval(call, n, replies)
	res := qfResult{done: done, level: level, nonce: nextNonce()}
	ev := Event{Kind: "qf", Call: call.Idx, Server: -1, Token: call.Token, Method: method, N: n, ReqOK: reqOK, Replies: snap,
		Done: done, Level: level, Nonce: res.nonce, Inflight: infl, AfterRet: after}
	if method != call.Spec.Kind {
		ev.BadType = "quorum function of " + method + " invoked for a " + call.Spec.Kind + " call"
	}
	// the event is logged before the (optional) slow part, so that the harness
	// can observe the invocation while it is still running
	log.Add(ev)
	if us := call.Spec.Script.SlowUs; us > 0 {
		time.Sleep(time.Duration(us) * time.Microsecond)
	}
	return res
}

func (q *qspec) rep(in *puppet.Req, r qfResult) *puppet.Rep {
	return &puppet.Rep{Token: in.GetToken(), Nonce: r.nonce, Level: int32(r.level)}
}

func (q *qspec) custom(in *puppet.Req, r qfResult) *puppet.Custom {
	return &puppet.Custom{Nonce: r.nonce, Level: int32(r.level)}
}

func (q *qspec) QCQF(in *puppet.Req, replies map[uint32]*puppet.Rep) (*puppet.Rep, bool) {
	r := q.common("QC", in, replies)
	return q.rep(in, r), r.done
}
func (q *qspec) QCPerNodeQF(in *puppet.Req, replies map[uint32]*puppet.Rep) (*puppet.Rep, bool) {
	r := q.common("QCPerNode", in, replies)
	return q.rep(in, r), r.done
}
func (q *qspec) QCCustomQF(in *puppet.Req, replies map[uint32]*puppet.Rep) (*puppet.Custom, bool) {
	r := q.common("QCCustom", in, replies)
	return q.custom(in, r), r.done
}
func (q *qspec) QCComboQF(in *puppet.Req, replies map[uint32]*puppet.Rep) (*puppet.Custom, bool) {
	r := q.common("QCCombo", in, replies)
	return q.custom(in, r), r.done
}
func (q *qspec) AsyncQF(in *puppet.Req, replies map[uint32]*puppet.Rep) (*puppet.Rep, bool) {
	r := q.common("Async", in, replies)
	return q.rep(in, r), r.done
}
func (q *qspec) AsyncPerNodeQF(in *puppet.Req, replies map[uint32]*puppet.Rep) (*puppet.Rep, bool) {
	r := q.common("AsyncPerNode", in, replies)
	return q.rep(in, r), r.done
}
func (q *qspec) AsyncCustomQF(in *puppet.Req, replies map[uint32]*puppet.Rep) (*puppet.Custom, bool) {
	r := q.common("AsyncCustom", in, replies)
	return q.custom(in, r), r.done
}
func (q *qspec) AsyncComboQF(in *puppet.Req, replies map[uint32]*puppet.Rep) (*puppet.Custom, bool) {
	r := q.common("AsyncCombo", in, replies)
	return q.custom(in, r), r.done
}
func (q *qspec) CorrQF(in *puppet.Req, replies map[uint32]*puppet.Rep) (*puppet.Rep, int, bool) {
	r := q.common("Corr", in, replies)
	return q.rep(in, r), r.level, r.done
}
func (q *qspec) CorrPerNodeQF(in *puppet.Req, replies map[uint32]*puppet.Rep) (*puppet.Rep, int, bool) {
	r := q.common("CorrPerNode", in, replies)
	return q.rep(in, r), r.level, r.done
}
func (q *qspec) CorrCustomQF(in *puppet.Req, replies map[uint32]*puppet.Rep) (*puppet.Custom, int, bool) {
	r := q.common("CorrCustom", in, replies)
	return q.custom(in, r), r.level, r.done
}
func (q *qspec) CorrComboQF(in *puppet.Req, replies map[uint32]*puppet.Rep) (*puppet.Custom, int, bool) {
	r := q.common("CorrCombo", in, replies)
	return q.custom(in, r), r.level, r.done
}
func (q *qspec) CorrStreamQF(in *puppet.Req, replies map[uint32]*puppet.Rep) (*puppet.Rep, int, bool) {
	r := q.common("CorrStream", in, replies)
	return q.rep(in, r), r.level, r.done
}
func (q *qspec) CorrStreamPerNodeQF(in *puppet.Req, replies map[uint32]*puppet.Rep) (*puppet.Rep, int, bool) {
	r := q.common("CorrStreamPerNode", in, replies)
	return q.rep(in, r), r.level, r.done
}
func (q *qspec) CorrStreamCustomQF(in *puppet.Req, replies map[uint32]*puppet.Rep) (*puppet.Custom, int, bool) {
	r := q.common("CorrStreamCustom", in, replies)
	return q.custom(in, r), r.level, r.done
}
func (q *qspec) CorrStreamComboQF(in *puppet.Req, replies map[uint32]*puppet.Rep) (*puppet.Custom, int, bool) {
	r := q.common("CorrStreamCombo", in, replies)
	return q.custom(in, r), r.level, r.done
}
