// C01 — a quorum call returns exactly its quorum function's verdict on genuine replies.
package c01

import (
	"testing"

	"pgregory.net/rapid"

	"verif/qeng"
	"verif/vt"
)

func gen(t *rapid.T) qeng.Case {
	return qeng.Gen(t, qeng.Bias{Kinds: qeng.QCKinds(), MaxN: 7, AllowDown: true, AllowSilent: true, AllowCtx: true, Background: true, AllowStop: false})
}

func run(c qeng.Case) vt.Verdict {
	r := qeng.Run(c)
	if r.SetupErr != "" {
		return vt.Verdict{OK: true, Inconclusive: true, Msg: r.SetupErr, Classes: []string{"setup-error"}}
	}
	classes, _ := qeng.Classes(c, r)
	if v := qeng.CheckC01(c, r); v != nil {
		return vt.Verdict{OK: false, Key: v.Key, Msg: v.Msg, History: r.Events, Classes: classes}
	}
	nontrivial := false
	if len(r.Targets) >= 2 {
		for _, s := range r.Targets {
			if k := c.Nodes[s].Kind; k != "reply" {
				nontrivial = true
			}
		}
		if k := c.Call.Script.Kind; k == "needs" || k == "equal" || k == "table" {
			nontrivial = true
		}
		if len(c.Bg) > 0 || len(c.Call.PerNode) > 0 || c.Call.Kind == "QCCustom" || c.Call.Kind == "AsyncCustom" || c.Call.Kind == "QCCombo" || c.Call.Kind == "AsyncCombo" {
			nontrivial = true
		}
	}
	v := vt.Pass(nontrivial, classes...)
	if r.Late {
		v.Inconclusive = true
	}
	return v
}

func TestProp(t *testing.T) {
	vt.Main(t, vt.Spec[qeng.Case]{
		ID:           "C01",
		Rule:         "rapid-generated histories: 1-7 servers, a subject quorum/async call (plain, per-node, custom return type, both) on a sub-configuration, per node reply/error/reply+error/silence/down, a generated arrival order realised by opening handler gates one at a time and waiting for the resulting quorum-function invocation, threshold/value-dependent/table quorum scripts, optional slow quorum function, context end at a generated position, 0-2 background calls of any kind on overlapping configurations; non-trivial = at least 2 targeted nodes and one of {error/silent/down node, value-dependent or table script, custom type, per-node arguments, background call}; distinct = distinct canonical JSON of the case",
		Gen:          gen,
		Run:          run,
		TrackCurrent: true,
	})
}
