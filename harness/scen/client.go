package scen

import (
	"context"
	"errors"
	"fmt"
	"sort"
	"strings"
	"sync"
	"sync/atomic"
	"time"

	"github.com/relab/gorums"
	cfgtest "github.com/relab/gorums/tests/config"
	onewaytest "github.com/relab/gorums/tests/oneway"
	"google.golang.org/grpc"
	"google.golang.org/grpc/backoff"
	"google.golang.org/grpc/codes"
	"google.golang.org/grpc/credentials/insecure"
	"google.golang.org/grpc/metadata"
	"google.golang.org/grpc/status"
	"google.golang.org/protobuf/proto"

	"verif/puppet"
)

var tokenCounter uint64 = 1000

// NewTokens reserves n process-unique tokens and returns the first.
func NewTokens(n int) uint64 {
	return atomic.AddUint64(&tokenCounter, uint64(n)) - uint64(n) + 1
}

var nonceCounter uint64

func nextNonce() uint64 { return atomic.AddUint64(&nonceCounter, 1) }

// MgrOpts are the manager options a case can choose.
type MgrOpts struct {
	SendBuffer    uint `json:"send_buffer,omitempty"`
	DialTimeoutMs int  `json:"dial_timeout_ms,omitempty"`
	WithBlock     bool `json:"with_block,omitempty"`
	// FailFastDial (with WithBlock): a blocking dial gives up at once when the address refuses
	// the connection (grpc.FailOnNonTempDialError) instead of retrying until the dial timeout;
	// a dial that gets no answer at all still waits for the whole timeout.
	FailFastDial bool              `json:"fail_fast_dial,omitempty"`
	BackoffMs    int               `json:"backoff_ms,omitempty"`
	Metadata     map[string]string `json:"metadata,omitempty"`
	PerNodeMD    bool              `json:"per_node_md,omitempty"`
	NoConnect    bool              `json:"no_connect,omitempty"`
	// TightDial keeps the (short) dial timeout also for a non-blocking dial, which never waits
	// for it (see NewClient); for cases in which the value itself matters.
	TightDial bool `json:"tight_dial,omitempty"`
	ListIDs   bool `json:"list_ids,omitempty"` // ids generated from addresses (WithNodeList) instead of a map
	// MaxSendBytes > 0 limits the size of a message the client may send (grpc.MaxCallSendMsgSize):
	// larger requests fail in SendMsg although the stream stays healthy.
	MaxSendBytes int `json:"max_send_bytes,omitempty"`
	// FailSendAt: ordinals (1-based, counted over all node streams of the client) of stream writes
	// that fail without writing anything - a transient send failure under a call whose context
	// is alive (injected by a client stream interceptor; the connection itself stays usable).
	FailSendAt []int `json:"fail_send_at,omitempty"`
}

// QStep is one row of a quorum-function table.
type QStep struct {
	Done  bool `json:"done,omitempty"`
	Level int  `json:"level,omitempty"`
}

// QScript scripts a quorum function.
type QScript struct {
	// Kind: threshold (Q successful replies), needs (the reply of server
	// Node must be present, and at least Q replies), equal (Q replies with
	// equal payload), table (by invocation index; the last row repeats).
	Kind   string  `json:"kind"`
	Q      int     `json:"q,omitempty"`
	Node   int     `json:"node,omitempty"`
	Table  []QStep `json:"table,omitempty"`
	SlowUs int     `json:"slow_us,omitempty"`
}

// CallSpec describes one call of a case.
type CallSpec struct {
	Kind       string         `json:"kind"`             // puppet method name
	Config     int            `json:"config,omitempty"` // configuration index (cfg calls)
	Node       int            `json:"node,omitempty"`   // server index (RPC, Unicast)
	Ctx        string         `json:"ctx,omitempty"`    // "", background, cancel, deadline, precancelled
	DeadlineUs int            `json:"deadline_us,omitempty"`
	PerNode    map[int]string `json:"per_node,omitempty"` // server -> skip | empty (a message with every field at its default) | tag:<k> ; absent = tag 0
	Script     QScript        `json:"script,omitempty"`
	NoSendWait bool           `json:"no_send_wait,omitempty"`
	Payload    int            `json:"payload,omitempty"`
	Thread     int            `json:"thread,omitempty"`
	// Cause: the context is created with context.WithCancelCause / WithTimeoutCause and ends with
	// a cause of the caller's own (ctx.Err() is still Canceled / DeadlineExceeded).
	Cause bool `json:"cause,omitempty"`
	// WaitWatch: the caller of a correctable call waits in Watch(level) alone, for a level that is
	// never reached, instead of Done: completion (of any kind) releases all watchers
	WaitWatch bool `json:"wait_watch,omitempty"`
}

// ErrCause is the cancellation cause of contexts created with CallSpec.Cause.
var ErrCause = errors.New("verif: the caller's own cancellation cause")

// Call is the run-time state of one call.
type Call struct {
	Idx   int
	Spec  CallSpec
	Token uint64
	Req   *puppet.Req
	ReqCp *puppet.Req

	cl       *Client
	ctx      context.Context
	cancel   context.CancelFunc
	inflight int32
	qfN      int32
	returned int32
	doneCh   chan struct{} // closed when the call returned / completed
	issued   chan struct{} // closed when the stub returned (async kinds: future available)
	started  chan struct{} // closed when Issue begins (the stub is about to be invoked)

	retAt time.Time
	// results
	mu       sync.Mutex
	Outcome  string
	Err      error
	Value    proto.Message
	Async    asyncGetter
	AsyncGet func() (proto.Message, error)
	Corr     corrGetter
	Raw      *gorums.Correctable
	typed    TypedGet
	Targets  []int // servers targeted (after per-node skips)
}

type asyncGetter interface {
	Done() bool
}

type corrGetter interface {
	Done() <-chan struct{}
	Watch(level int) <-chan struct{}
}

// Client is a manager with its configurations and the recorder.
type Client struct {
	Cl       *Cluster
	Mgr      *puppet.Manager
	Opts     MgrOpts
	IDs      []uint32       // node id per server index
	srvOf    map[uint32]int // node id -> server index
	Configs  []*puppet.Configuration
	CfgSrv   [][]int // servers of each configuration
	CfgAlias []bool  // configuration i registers its servers under their alias ids (AddAliasConfig)

	mu    sync.Mutex
	calls map[uint64]*Call
	list  []*Call

	unionOnce sync.Once
	union     *puppet.Configuration

	sends       int64 // stream writes seen by the FailSendAt interceptor
	SendsFailed int32 // ... of which it failed
}

// IsStream etc. classify puppet methods.
func IsStream(kind string) bool { return len(kind) >= 10 && kind[:10] == "CorrStream" }
func IsCorr(kind string) bool   { return len(kind) >= 4 && kind[:4] == "Corr" }
func IsAsync(kind string) bool  { return len(kind) >= 5 && kind[:5] == "Async" }
func IsQC(kind string) bool     { return len(kind) >= 2 && kind[:2] == "QC" }
func IsOneWay(kind string) bool {
	return kind == "Multicast" || kind == "MulticastPerNode" || kind == "Unicast" || kind == "UnhandledUnicast"
}
func IsNodeCall(kind string) bool { return kind == "RPC" || kind == "Unicast" || IsUnhandled(kind) }

// IsUnhandled: calls (through the raw node API) of methods of another service that the
// codec knows on both sides but for which the puppet servers register no handler. The
// server skips such requests silently: a two-way call ends by its context only.
func IsUnhandled(kind string) bool { return kind == "UnhandledRPC" || kind == "UnhandledUnicast" }
func HasPerNode(kind string) bool {
	switch kind {
	case "QCPerNode", "QCCombo", "AsyncPerNode", "AsyncCombo", "CorrPerNode", "CorrCombo", "CorrStreamPerNode", "CorrStreamCombo", "MulticastPerNode":
		return true
	}
	return false
}
func IsCustom(kind string) bool {
	switch kind {
	case "QCCustom", "QCCombo", "AsyncCustom", "AsyncCombo", "CorrCustom", "CorrCombo", "CorrStreamCustom", "CorrStreamCombo":
		return true
	}
	return false
}

// AllKinds lists the 20 puppet methods.
var AllKinds = []string{"RPC", "QC", "QCPerNode", "QCCustom", "QCCombo", "Async", "AsyncPerNode", "AsyncCustom", "AsyncCombo",
	"Corr", "CorrPerNode", "CorrCustom", "CorrCombo", "CorrStream", "CorrStreamPerNode", "CorrStreamCustom", "CorrStreamCombo",
	"Multicast", "MulticastPerNode", "Unicast"}

// NodeID is the id the harness gives server i in map mode.
func NodeID(i int) uint32 { return uint32(i + 1) }

// NewClient creates a manager over the cluster's fabric. All servers of the
// cluster are registered as nodes (configuration 0 is "all servers").
func NewClient(cl *Cluster, o MgrOpts) (*Client, error) {
	var c *Client
	var err error
	// a manager whose nodes did not all connect (see the end of newClientOnce) is closed and
	// built again a few times before the case is given up as not evaluable
	for attempt := 0; attempt < 4; attempt++ {
		c, err = newClientOnce(cl, o)
		if !errors.Is(err, errNotConnected) {
			break
		}
		noteLoadFault() // whatever the case observes of the abandoned manager is not the case's doing
	}
	return c, err
}

var errNotConnected = errors.New("setup")

func newClientOnce(cl *Cluster, o MgrOpts) (*Client, error) {
	c := &Client{Cl: cl, Opts: o, srvOf: map[uint32]int{}, calls: map[uint64]*Call{}}
	dial := []grpc.DialOption{
		grpc.WithContextDialer(cl.Fab.Dialer),
		grpc.WithTransportCredentials(insecure.NewCredentials()),
	}
	if o.WithBlock {
		dial = append(dial, grpc.WithBlock())
		if o.FailFastDial {
			dial = append(dial, grpc.FailOnNonTempDialError(true)) //nolint:staticcheck // the option is what an application with this need uses
		}
	}
	if o.MaxSendBytes > 0 {
		dial = append(dial, grpc.WithDefaultCallOptions(grpc.MaxCallSendMsgSize(o.MaxSendBytes)))
	}
	if len(o.FailSendAt) > 0 {
		dial = append(dial, grpc.WithChainStreamInterceptor(c.failSends))
	}
	dt := o.DialTimeoutMs
	if dt == 0 {
		dt = 50
	}
	if !o.WithBlock && !o.TightDial {
		// a non-blocking dial never waits for its timeout; a short one only makes the dial fail
		// when the machine is so busy that grpc.DialContext itself takes that long
		dt = 10000
	}
	reach := make([]bool, cl.N)
	for i := range reach {
		reach[i] = cl.Fab.Reachable(Addr(i))
	}
	bo := o.BackoffMs
	if bo == 0 {
		bo = 20
	}
	if RaceBuild && bo < 200 {
		// gorums hands the back-off to grpc as the connect deadline of every attempt (see
		// loadfault.go); under the race detector a dial and handshake rarely fit into 20 ms
		bo = 200
	}
	mopts := []gorums.ManagerOption{
		// two calls, as an application that collects its dial options in several places makes them
		// (the manager's option list then has spare capacity)
		gorums.WithGrpcDialOptions(dial[:2]...),
		gorums.WithGrpcDialOptions(append(dial[2:], grpc.WithUserAgent("verif"))...),
		gorums.WithDialTimeout(time.Duration(dt) * time.Millisecond),
		gorums.WithBackoff(backoff.Config{BaseDelay: time.Duration(bo) * time.Millisecond, Multiplier: 1.0, Jitter: 0, MaxDelay: time.Duration(bo) * time.Millisecond}),
		gorums.WithSendBufferSize(o.SendBuffer),
	}
	if len(o.Metadata) > 0 {
		mopts = append(mopts, gorums.WithMetadata(metadata.New(o.Metadata)))
	}
	if o.PerNodeMD {
		mopts = append(mopts, gorums.WithPerNodeMetadata(func(id uint32) metadata.MD {
			// "verif-shared" is a key the general metadata may carry as well: both values must arrive
			return metadata.Pairs("verif-node", fmt.Sprint(id), fmt.Sprintf("verif-only-%d", id), "x", "verif-shared", fmt.Sprintf("node-%d", id))
		}))
	}
	if o.NoConnect {
		mopts = append(mopts, gorums.WithNoConnect())
	}
	c.Mgr = puppet.NewManager(mopts...)
	all := make([]int, cl.N)
	for i := range all {
		all[i] = i
	}
	var err error
	var cfg *puppet.Configuration
	if o.ListIDs {
		addrs := make([]string, cl.N)
		for i := range addrs {
			addrs[i] = Addr(i)
		}
		cfg, err = c.Mgr.NewConfiguration(&qspec{c}, gorums.WithNodeList(addrs))
	} else {
		m := map[string]uint32{}
		for i := 0; i < cl.N; i++ {
			m[Addr(i)] = NodeID(i)
		}
		cfg, err = c.Mgr.NewConfiguration(&qspec{c}, gorums.WithNodeMap(m))
	}
	if err != nil {
		return c, err
	}
	c.IDs = make([]uint32, cl.N)
	for _, n := range cfg.Nodes() {
		for i := 0; i < cl.N; i++ {
			if n.Address() == Addr(i) {
				c.IDs[i] = n.ID()
				c.srvOf[n.ID()] = i
			}
		}
	}
	c.Configs = append(c.Configs, cfg)
	c.CfgSrv = append(c.CfgSrv, all)
	if !o.NoConnect {
		// Precondition of every case: a node whose server was reachable while the manager was
		// created is connected. It can only fail to be if the (blocking) dial timed out, i.e.
		// on an overloaded machine; such a case is not evaluated.
		for _, n := range cfg.Nodes() {
			i, ok := c.srvOf[n.ID()]
			if ok && reach[i] && cl.Fab.Reachable(Addr(i)) && !gorums.VerifConnected(n.RawNode) {
				c.Close(B)
				return c, fmt.Errorf("%w: the node of reachable server %d did not connect (connect deadline = back-off %d ms, dial timeout %d ms); machine overloaded?", errNotConnected, i, bo, dt)
			}
		}
	}
	return c, nil
}

// failSends is the client stream interceptor behind MgrOpts.FailSendAt.
func (c *Client) failSends(ctx context.Context, desc *grpc.StreamDesc, cc *grpc.ClientConn, method string, streamer grpc.Streamer, opts ...grpc.CallOption) (grpc.ClientStream, error) {
	cs, err := streamer(ctx, desc, cc, method, opts...)
	if err != nil {
		return cs, err
	}
	return &faultyStream{ClientStream: cs, c: c}, nil
}

type faultyStream struct {
	grpc.ClientStream
	c *Client
}

func (s *faultyStream) SendMsg(m any) error {
	n := int(atomic.AddInt64(&s.c.sends, 1))
	for _, k := range s.c.Opts.FailSendAt {
		if k == n {
			atomic.AddInt32(&s.c.SendsFailed, 1)
			return status.Error(codes.Unavailable, "verif: injected send failure")
		}
	}
	return s.ClientStream.SendMsg(m)
}

// AddConfig creates a configuration over the given servers and returns its index.
func (c *Client) AddConfig(servers []int) (int, error) {
	ids := make([]uint32, len(servers))
	for i, s := range servers {
		ids[i] = c.IDs[s]
	}
	cfg, err := c.Mgr.NewConfiguration(&qspec{c}, gorums.WithNodeIDs(ids))
	if err != nil {
		return -1, err
	}
	sv := append([]int(nil), servers...)
	sort.Ints(sv)
	c.Configs = append(c.Configs, cfg)
	c.CfgSrv = append(c.CfgSrv, sv)
	return len(c.Configs) - 1, nil
}

// AliasID is the second node id under which an alias configuration registers server i.
func AliasID(i int) uint32 { return uint32(70001 + i) }

// AddAliasConfig creates a configuration over the given servers in which every server is a
// node of its own with another id (AliasID) than the one the manager knows it by already - one
// address under two ids, each with its own connection. Returns the configuration's index.
func (c *Client) AddAliasConfig(servers []int) (int, error) {
	m := map[string]uint32{}
	for _, s := range servers {
		m[Addr(s)] = AliasID(s)
		c.srvOf[AliasID(s)] = s
	}
	cfg, err := c.Mgr.NewConfiguration(&qspec{c}, gorums.WithNodeMap(m))
	if err != nil {
		return -1, err
	}
	sv := append([]int(nil), servers...)
	sort.Ints(sv)
	c.Configs = append(c.Configs, cfg)
	c.CfgSrv = append(c.CfgSrv, sv)
	for len(c.CfgAlias) < len(c.Configs)-1 {
		c.CfgAlias = append(c.CfgAlias, false)
	}
	c.CfgAlias = append(c.CfgAlias, true)
	return len(c.Configs) - 1, nil
}

// IsAlias: configuration i was made by AddAliasConfig.
func (c *Client) IsAlias(i int) bool { return i < len(c.CfgAlias) && c.CfgAlias[i] }

// ServerOf maps a node id to the server index (-1 if unknown).
func (c *Client) ServerOf(id uint32) int {
	if s, ok := c.srvOf[id]; ok {
		return s
	}
	return -1
}

// Node returns the generated node wrapper of server i.
func (c *Client) Node(i int) *puppet.Node {
	for _, n := range c.Configs[0].Nodes() {
		if n.ID() == c.IDs[i] {
			return n
		}
	}
	return nil
}

// Close closes the manager with a bound; false if Close did not return in time.
func (c *Client) Close(bound time.Duration) bool {
	if atomic.LoadInt32(&hangsConfirmed) > 0 && bound > 2*time.Second {
		bound = 2 * time.Second
	}
	done := make(chan struct{})
	go func() {
		defer func() { _ = recover(); close(done) }()
		c.Mgr.Close()
	}()
	ok := waitCh(done, bound)
	if ok {
		// Nodes registered while or after the manager was closed (configuration creation racing
		// with Close) are not closed by it; the harness closes them so that they do not pile up
		// over thousands of cases. (Close is idempotent for the nodes it did close.)
		func() {
			defer func() { _ = recover() }()
			for _, n := range c.Mgr.Nodes() {
				gorums.VerifCloseNode(n.RawNode)
			}
		}()
	}
	return ok
}

func (c *Client) lookup(token uint64) *Call {
	c.mu.Lock()
	defer c.mu.Unlock()
	return c.calls[token]
}

// Calls returns the calls created so far.
func (c *Client) Calls() []*Call {
	c.mu.Lock()
	defer c.mu.Unlock()
	return append([]*Call(nil), c.list...)
}

// NewCall prepares a call (does not issue it).
func (c *Client) NewCall(idx int, token uint64, seq uint64, spec CallSpec) *Call {
	req := &puppet.Req{Token: token, Seq: seq, Thread: uint32(spec.Thread), Note: spec.Kind}
	if spec.Payload > 0 {
		req.Payload = PayloadFor(99, token, spec.Payload)
	}
	call := &Call{Idx: idx, Spec: spec, Token: token, Req: req, ReqCp: proto.Clone(req).(*puppet.Req), cl: c,
		doneCh: make(chan struct{}), issued: make(chan struct{}), started: make(chan struct{})}
	switch spec.Ctx {
	case "", "background":
		call.ctx, call.cancel = context.Background(), func() {}
	case "cancel", "precancelled":
		if spec.Cause {
			ctx, cc := context.WithCancelCause(context.Background())
			call.ctx, call.cancel = ctx, func() { cc(ErrCause) }
		} else {
			call.ctx, call.cancel = context.WithCancel(context.Background())
		}
		if spec.Ctx == "precancelled" {
			call.cancel()
		}
	case "deadline":
		if spec.Cause {
			call.ctx, call.cancel = context.WithTimeoutCause(context.Background(), time.Duration(spec.DeadlineUs)*time.Microsecond, ErrCause)
		} else {
			call.ctx, call.cancel = context.WithTimeout(context.Background(), time.Duration(spec.DeadlineUs)*time.Microsecond)
		}
	default:
		panic("unknown ctx kind " + spec.Ctx)
	}
	// targets
	if IsNodeCall(spec.Kind) {
		call.Targets = []int{spec.Node}
	} else {
		for _, s := range c.CfgSrv[spec.Config] {
			if HasPerNode(spec.Kind) && spec.PerNode[s] == "skip" {
				continue
			}
			call.Targets = append(call.Targets, s)
		}
	}
	c.Cl.SetCall(token, idx)
	c.mu.Lock()
	c.calls[token] = call
	c.list = append(c.list, call)
	c.mu.Unlock()
	return call
}

// Cancel cancels the call's context and logs it.
func (call *Call) Cancel() {
	call.cl.Cl.Log.Add(Event{Kind: "cancel", Call: call.Idx, Token: call.Token, Server: -1})
	call.cancel()
}

// Ctx returns the call's context.
func (call *Call) Ctx() context.Context { return call.ctx }

// DoneCh is closed when the call returned (sync, one-way) or completed (future, correctable).
func (call *Call) DoneCh() <-chan struct{} { return call.doneCh }

// StartedCh is closed when the call's stub is about to be invoked.
func (call *Call) StartedCh() <-chan struct{} { return call.started }

// IssuedCh is closed when the stub has returned.
func (call *Call) IssuedCh() <-chan struct{} { return call.issued }

// Returned reports whether the call has returned/completed.
func (call *Call) Returned() bool { return atomic.LoadInt32(&call.returned) == 1 }

// PerNodeTag returns the tag the per-node function gives server s ("" = skip).
func perNodeTag(spec CallSpec, s int) (uint32, bool) {
	tag, _, ok := PerNodeArgs(spec, s)
	return tag, ok
}

// PerNodeArgs decodes the per-node table entry of server s: "skip", or a
// comma separated list of tag:<k> and pay:<n> (a node-specific payload of n bytes).
// pay < 0 means "the caller's payload".
func PerNodeArgs(spec CallSpec, s int) (tag uint32, pay int, ok bool) {
	pay = -1
	v, present := spec.PerNode[s]
	if !present {
		return 0, pay, true
	}
	if v == "skip" {
		return 0, pay, false
	}
	for _, part := range strings.Split(v, ",") {
		var k int
		if n, _ := fmt.Sscanf(part, "tag:%d", &k); n == 1 {
			tag = uint32(k)
		} else if n, _ := fmt.Sscanf(part, "pay:%d", &k); n == 1 {
			pay = k
		}
	}
	return tag, pay, true
}

// perNodeDelay returns the time the per-node function spends for server s
// ("delay:<us>" in the table): the call has drawn its message id by then but
// has not handed over its requests yet.
func perNodeDelay(spec CallSpec, s int) time.Duration {
	for _, part := range strings.Split(spec.PerNode[s], ",") {
		var k int
		if n, _ := fmt.Sscanf(part, "delay:%d", &k); n == 1 {
			return time.Duration(k) * time.Microsecond
		}
	}
	return 0
}

// PerNodePayload is the node-specific payload the per-node function builds.
func PerNodePayload(token uint64, server, size int) []byte {
	return PayloadFor(1000+server, token, size)
}

func (call *Call) perNodeFn() func(*puppet.Req, uint32) *puppet.Req {
	return func(r *puppet.Req, id uint32) *puppet.Req {
		s := call.cl.ServerOf(id)
		tag, ok := perNodeTag(call.Spec, s)
		call.cl.Cl.Log.Add(Event{Kind: "pernode", Call: call.Idx, Token: call.Token, Server: s, Tag: tag, ReqOK: proto.Equal(r, call.ReqCp), Note: fmt.Sprint(ok)})
		if d := perNodeDelay(call.Spec, s); d > 0 {
			time.Sleep(d)
		}
		if !ok {
			return nil
		}
		if call.Spec.PerNode[s] == "empty" {
			// a message, not "no message": every field at its default, so it encodes to zero bytes
			return &puppet.Req{}
		}
		cp := proto.Clone(r).(*puppet.Req)
		cp.NodeTag = tag
		if _, pay, _ := PerNodeArgs(call.Spec, s); pay >= 0 {
			cp.Payload = PerNodePayload(call.Token, s, pay)
		}
		return cp
	}
}

func snapRep(r *puppet.Rep) RepSnap {
	if r == nil {
		return RepSnap{}
	}
	return RepSnap{Token: r.GetToken(), Seq: r.GetSeq(), Node: r.GetNode(), Serial: r.GetSerial(), Level: r.GetLevel(),
		NodeTag: r.GetNodeTag(), PayHash: HashBytes(r.GetPayload()), Nonce: r.GetNonce()}
}

func (call *Call) finish(outcome string, val proto.Message, err error) {
	ev := Event{Kind: "return", Call: call.Idx, Token: call.Token, Server: -1, Outcome: outcome, Method: call.Spec.Kind}
	if ce := call.ctx.Err(); ce != nil {
		ev.Note = "ctx:" + ce.Error()
		if err != nil {
			ev.IsCtx = errors.Is(err, ce)
		}
	}
	if err != nil {
		ev.ErrText = err.Error()
		ev.IsInc = errors.Is(err, gorums.Incomplete)
		ev.IsCanc = errors.Is(err, context.Canceled)
		ev.IsDead = errors.Is(err, context.DeadlineExceeded)
	}
	switch v := val.(type) {
	case *puppet.Rep:
		if v != nil {
			s := snapRep(v)
			ev.Value, ev.ValType = &s, "Rep"
		}
	case *puppet.Custom:
		if v != nil {
			ev.Value, ev.ValType = &RepSnap{Nonce: v.GetNonce(), Level: v.GetLevel()}, "Custom"
		}
	}
	call.mu.Lock()
	call.Outcome, call.Err, call.Value = outcome, err, val
	call.retAt = time.Now()
	call.mu.Unlock()
	// the flag is raised before the event is logged: a quorum-function
	// invocation that starts after this point is "after return".
	atomic.StoreInt32(&call.returned, 1)
	call.cl.Cl.Log.Add(ev)
	close(call.doneCh)
}

func outcomeOf(err error) string {
	if err != nil {
		return "error"
	}
	return "value"
}

// Issue invokes the generated stub in the calling goroutine. For synchronous
// kinds it blocks until the call returns; for futures and correctables it
// returns as soon as the stub does and a watcher logs the completion.
func (call *Call) Issue() {
	c := call.cl
	spec := call.Spec
	ctx := call.ctx
	c.Cl.Log.Add(Event{Kind: "issue", Call: call.Idx, Token: call.Token, Server: -1, Method: spec.Kind, Seq: call.Req.GetSeq()})
	select {
	case <-call.started:
	default:
		close(call.started)
	}
	var opts []gorums.CallOption
	if spec.NoSendWait {
		opts = append(opts, gorums.WithNoSendWaiting())
	}
	defer func() {
		select {
		case <-call.issued:
		default:
			close(call.issued)
		}
	}()
	var cfg *puppet.Configuration
	if !IsNodeCall(spec.Kind) {
		cfg = c.Configs[spec.Config]
	}
	f := call.perNodeFn()
	switch spec.Kind {
	case "RPC":
		v, err := c.Node(spec.Node).RPC(ctx, call.Req)
		call.finish(outcomeOf(err), v, err)
	case "Unicast":
		c.Node(spec.Node).Unicast(ctx, call.Req, opts...)
		call.finish("none", nil, nil)
	case "UnhandledRPC":
		_, err := c.Node(spec.Node).RawNode.RPCCall(ctx, gorums.CallData{Message: &cfgtest.Request{Num: call.Token}, Method: "config.ConfigTest.Config"})
		call.finish(outcomeOf(err), nil, err)
	case "UnhandledUnicast":
		c.Node(spec.Node).RawNode.Unicast(ctx, gorums.CallData{Message: &onewaytest.Request{Num: call.Token}, Method: "oneway.OnewayTest.Unicast"}, opts...)
		call.finish("none", nil, nil)
	case "Multicast":
		cfg.Multicast(ctx, call.Req, opts...)
		call.finish("none", nil, nil)
	case "MulticastPerNode":
		cfg.MulticastPerNode(ctx, call.Req, f, opts...)
		call.finish("none", nil, nil)
	case "QC":
		v, err := cfg.QC(ctx, call.Req)
		call.finish(outcomeOf(err), v, err)
	case "QCPerNode":
		v, err := cfg.QCPerNode(ctx, call.Req, f)
		call.finish(outcomeOf(err), v, err)
	case "QCCustom":
		v, err := cfg.QCCustom(ctx, call.Req)
		call.finish(outcomeOf(err), v, err)
	case "QCCombo":
		v, err := cfg.QCCombo(ctx, call.Req, f)
		call.finish(outcomeOf(err), v, err)
	case "Async":
		fut := cfg.Async(ctx, call.Req)
		call.Async = fut
		call.AsyncGet = func() (proto.Message, error) { return fut.Get() }
		close(call.issued)
		go func() { v, err := fut.Get(); call.finish(outcomeOf(err), v, err) }()
	case "AsyncPerNode":
		fut := cfg.AsyncPerNode(ctx, call.Req, f)
		call.Async = fut
		call.AsyncGet = func() (proto.Message, error) { return fut.Get() }
		close(call.issued)
		go func() { v, err := fut.Get(); call.finish(outcomeOf(err), v, err) }()
	case "AsyncCustom":
		fut := cfg.AsyncCustom(ctx, call.Req)
		call.Async = fut
		call.AsyncGet = func() (proto.Message, error) { return fut.Get() }
		close(call.issued)
		go func() { v, err := fut.Get(); call.finish(outcomeOf(err), v, err) }()
	case "AsyncCombo":
		fut := cfg.AsyncCombo(ctx, call.Req, f)
		call.Async = fut
		call.AsyncGet = func() (proto.Message, error) { return fut.Get() }
		close(call.issued)
		go func() { v, err := fut.Get(); call.finish(outcomeOf(err), v, err) }()
	case "Corr":
		co := cfg.Corr(ctx, call.Req)
		call.watchCorr(co, co.Correctable, func() (proto.Message, int, error) { return co.Get() })
	case "CorrPerNode":
		co := cfg.CorrPerNode(ctx, call.Req, f)
		call.watchCorr(co, co.Correctable, func() (proto.Message, int, error) { return co.Get() })
	case "CorrCustom":
		co := cfg.CorrCustom(ctx, call.Req)
		call.watchCorr(co, co.Correctable, func() (proto.Message, int, error) { return co.Get() })
	case "CorrCombo":
		co := cfg.CorrCombo(ctx, call.Req, f)
		call.watchCorr(co, co.Correctable, func() (proto.Message, int, error) { return co.Get() })
	case "CorrStream":
		co := cfg.CorrStream(ctx, call.Req)
		call.watchCorr(co, co.Correctable, func() (proto.Message, int, error) { return co.Get() })
	case "CorrStreamPerNode":
		co := cfg.CorrStreamPerNode(ctx, call.Req, f)
		call.watchCorr(co, co.Correctable, func() (proto.Message, int, error) { return co.Get() })
	case "CorrStreamCustom":
		co := cfg.CorrStreamCustom(ctx, call.Req)
		call.watchCorr(co, co.Correctable, func() (proto.Message, int, error) { return co.Get() })
	case "CorrStreamCombo":
		co := cfg.CorrStreamCombo(ctx, call.Req, f)
		call.watchCorr(co, co.Correctable, func() (proto.Message, int, error) { return co.Get() })
	default:
		panic("unknown call kind " + spec.Kind)
	}
}

// TypedGet is the typed accessor of a correctable, wrapped so that a panic is
// reported instead of killing the process.
type TypedGet func() (val proto.Message, level int, err error, panicked string)

func (call *Call) watchCorr(co corrGetter, raw *gorums.Correctable, get func() (proto.Message, int, error)) {
	call.mu.Lock()
	call.Corr = co
	call.Raw = raw
	call.typed = func() (val proto.Message, level int, err error, panicked string) {
		defer func() {
			if r := recover(); r != nil {
				panicked = fmt.Sprint(r)
			}
		}()
		val, level, err = get()
		return
	}
	call.mu.Unlock()
	close(call.issued)
	var watch <-chan struct{}
	if call.Spec.WaitWatch {
		watch = raw.Watch(1 << 40)
	}
	go func() {
		if watch != nil {
			<-watch
		} else {
			<-co.Done()
		}
		v, _, err, p := call.typed()
		if p != "" {
			call.finish("panic", nil, fmt.Errorf("typed Get panicked: %s", p))
			return
		}
		call.finish(outcomeOf(err), v, err)
	}()
}

// Typed returns the typed accessor of a correctable call (nil before issue).
func (call *Call) Typed() TypedGet {
	call.mu.Lock()
	defer call.mu.Unlock()
	return call.typed
}

// ReturnedAt is the wall-clock time at which the call returned (zero if it has not).
func (call *Call) ReturnedAt() time.Time {
	call.mu.Lock()
	defer call.mu.Unlock()
	return call.retAt
}

// NewConfigUnrecorded creates a further configuration on the manager without
// storing it in the client (safe to call concurrently; used by C15).
func (c *Client) NewConfigUnrecorded(servers []int, viaList bool) error {
	return c.NewConfigUnrecordedWithNew(servers, viaList, false)
}

var extraNode uint32

// NewConfigUnrecordedWithNew is NewConfigUnrecorded that optionally registers
// one more (unreachable) node with the manager, as a growing deployment would.
func (c *Client) NewConfigUnrecordedWithNew(servers []int, viaList, addNode bool) error {
	if addNode {
		k := atomic.AddUint32(&extraNode, 1)
		addr := fmt.Sprintf("127.0.0.1:%d", 20000+k%40000)
		var nopt gorums.NodeListOption
		if c.Opts.ListIDs {
			nopt = gorums.WithNodeList([]string{addr})
		} else {
			// ids below and above the existing ones, so that the pool has to be re-sorted
			id := uint32(1000 + k)
			if k%2 == 0 {
				id = 0x80000000 - k
			}
			nopt = gorums.WithNodeMap(map[string]uint32{addr: id})
		}
		if _, err := c.Mgr.NewConfiguration(&qspec{c}, c.Configs[0].WithNewNodes(nopt)); err != nil {
			return err
		}
	}
	var opt gorums.NodeListOption
	if viaList {
		addrs := make([]string, len(servers))
		for i, s := range servers {
			addrs[i] = Addr(s)
		}
		if c.Opts.ListIDs {
			opt = gorums.WithNodeList(addrs)
		} else {
			m := map[string]uint32{}
			for _, s := range servers {
				m[Addr(s)] = c.IDs[s]
			}
			opt = gorums.WithNodeMap(m)
		}
	} else {
		ids := make([]uint32, len(servers))
		for i, s := range servers {
			ids[i] = c.IDs[s]
		}
		opt = gorums.WithNodeIDs(ids)
	}
	cfg, err := c.Mgr.NewConfiguration(&qspec{c}, opt)
	if err != nil {
		return err
	}
	// derived configurations, as a user would build them
	if len(servers) > 1 {
		_, _ = c.Mgr.NewConfiguration(&qspec{c}, cfg.WithoutNodes(c.IDs[servers[0]]))
		_, _ = c.Mgr.NewConfiguration(&qspec{c}, cfg.And(c.Configs[0]))
	}
	// a long-lived configuration that is itself a union of overlapping configurations (its node
	// slice was de-duplicated), extended by several threads at once
	c.unionOnce.Do(func() {
		c.union, _ = c.Mgr.NewConfiguration(&qspec{c}, c.Configs[0].And(c.Configs[0]))
	})
	if c.union != nil {
		_, _ = c.Mgr.NewConfiguration(&qspec{c}, c.union.And(cfg))
	}
	return nil
}

// ReadTopology reads the manager's and configurations' node lists the way a
// monitoring goroutine would (used by C15).
func (c *Client) ReadTopology() int {
	sum := 0
	for _, n := range c.Mgr.Nodes() {
		sum += int(n.ID()) + len(n.Address()) + len(n.Host()) + len(n.Port())
		_ = n.LastErr()
		_ = n.Latency()
	}
	for _, id := range c.Mgr.NodeIDs() {
		if n, ok := c.Mgr.Node(id); ok {
			sum += int(n.ID())
		}
	}
	sum += c.Mgr.Size()
	for _, cfg := range c.Configs {
		sum += cfg.Size() + len(cfg.NodeIDs())
		for _, n := range cfg.Nodes() {
			sum += int(n.ID())
		}
	}
	return sum
}
