// C10 — nodes that come back are used again; each connection carries metadata.
package c10

import (
	"fmt"
	"strings"
	"testing"
	"time"

	"pgregory.net/rapid"

	"verif/scen"
	"verif/vt"
)

// Step of a fault sequence.
type Step struct {
	// Op: stop | start | call | sleep
	Op   string `json:"op"`
	Node int    `json:"node,omitempty"`
	Kind string `json:"kind,omitempty"` // call kind
	Ms   int    `json:"ms,omitempty"`
}

type Case struct {
	N         int          `json:"n"`
	Mgr       scen.MgrOpts `json:"mgr"`
	DownAtNew []int        `json:"down_at_creation,omitempty"`
	Steps     []Step       `json:"steps"`
	// ProbeKinds: call types that, after the RPC probes, must reach every node as well
	ProbeKinds []string `json:"probe_kinds,omitempty"`
	// ProbeDeadlineMs > 0: the RPC probes carry a context deadline, shorter than the back-off base
	// delay (callers with short per-call timeouts must get the node back as well); 0: no deadline
	ProbeDeadlineMs int `json:"probe_deadline_ms,omitempty"`
	// OneWayFirst: the first call that reaches a restarted node is one-way (Unicast | Multicast); the
	// two-way probes follow once its server has received that message
	OneWayFirst string `json:"one_way_first,omitempty"`
}

var probeKinds = []string{"QC", "QCPerNode", "Async", "Corr", "CorrStream", "Multicast", "MulticastPerNode", "Unicast"}

var trafficKinds = []string{"RPC", "QC", "Async", "Corr", "CorrStream", "Multicast", "Unicast", "QCPerNode"}

func gen(t *rapid.T) Case {
	n := rapid.IntRange(1, 3).Draw(t, "n")
	c := Case{N: n}
	c.Mgr = scen.MgrOpts{
		SendBuffer:    rapid.SampledFrom([]uint{0, 0, 2}).Draw(t, "sendBuffer"),
		DialTimeoutMs: 50,
		BackoffMs:     rapid.SampledFrom([]int{400, 1200}).Draw(t, "backoffMs"),
		PerNodeMD:     rapid.Bool().Draw(t, "perNodeMD"),
		ListIDs:       rapid.IntRange(0, 3).Draw(t, "listIDs") == 0,
	}
	if rapid.Bool().Draw(t, "md") {
		c.Mgr.Metadata = map[string]string{"verif-general": rapid.StringMatching("[a-z0-9]{1,8}").Draw(t, "mdval"), "verif-second": "2"}
		if c.Mgr.PerNodeMD && rapid.Bool().Draw(t, "sharedKey") {
			c.Mgr.Metadata["verif-shared"] = "all-nodes" // a key the per-node metadata carries as well
		}
	}
	c.ProbeDeadlineMs = rapid.SampledFrom([]int{0, 0, 150}).Draw(t, "probeDeadlineMs")
	if rapid.IntRange(0, 3).Draw(t, "withBlock") == 0 {
		// a blocking dial (grpc.WithBlock): for a server that is down the dial itself fails at creation
		c.Mgr.WithBlock, c.Mgr.DialTimeoutMs = true, 300
	}
	up := make([]bool, n)
	for s := 0; s < n; s++ {
		up[s] = rapid.IntRange(0, 3).Draw(t, fmt.Sprintf("down%d", s)) != 0
		if !up[s] {
			c.DownAtNew = append(c.DownAtNew, s)
		}
	}
	if rapid.IntRange(0, 2).Draw(t, "directed") == 0 {
		// the shape the reply clause is about: a connected node crashes, the outage outlasts the first
		// reconnection attempt (the receiver then sleeps in its back-off), the node listens again and
		// the probes start at once - the first call reaches the node before any back-off timer fires
		s := rapid.IntRange(0, n-1).Draw(t, "crashNode")
		if !up[s] {
			c.Steps = append(c.Steps, Step{Op: "start", Node: s})
			up[s] = true
		}
		if rapid.Bool().Draw(t, "warm") {
			c.Steps = append(c.Steps, Step{Op: "call", Node: s, Kind: rapid.SampledFrom(trafficKinds).Draw(t, "warmKind")})
		}
		c.Steps = append(c.Steps, Step{Op: "stop", Node: s},
			Step{Op: "sleep", Ms: rapid.SampledFrom([]int{20, 60, 150}).Draw(t, "outageMs")},
			Step{Op: "start", Node: s})
		for k := 0; k < n; k++ {
			if !up[k] {
				c.Steps = append(c.Steps, Step{Op: "start", Node: k})
			}
		}
		c.ProbeKinds = rapid.SliceOfNDistinct(rapid.SampledFrom(probeKinds), 1, 2, rapid.ID[string]).Draw(t, "probeKinds")
		c.OneWayFirst = rapid.SampledFrom([]string{"", "", "Unicast", "Multicast"}).Draw(t, "oneWayFirst")
		return c
	}
	ns := rapid.IntRange(1, 6).Draw(t, "nsteps")
	for i := 0; i < ns; i++ {
		s := rapid.IntRange(0, n-1).Draw(t, fmt.Sprintf("node%d", i))
		switch rapid.IntRange(0, 3).Draw(t, fmt.Sprintf("op%d", i)) {
		case 0, 1:
			if up[s] {
				c.Steps = append(c.Steps, Step{Op: "stop", Node: s})
			} else {
				c.Steps = append(c.Steps, Step{Op: "start", Node: s})
			}
			up[s] = !up[s]
		case 2:
			c.Steps = append(c.Steps, Step{Op: "call", Node: s, Kind: rapid.SampledFrom(trafficKinds).Draw(t, fmt.Sprintf("kind%d", i))})
		case 3:
			// mostly short; rarely long enough for five and more reconnection attempts in a row to fail
			c.Steps = append(c.Steps, Step{Op: "sleep", Ms: rapid.SampledFrom([]int{1, 20, 150, 1, 20, 150, 2600}).Draw(t, fmt.Sprintf("ms%d", i))})
		}
	}
	// every node is up at the end
	for s := 0; s < n; s++ {
		if !up[s] {
			c.Steps = append(c.Steps, Step{Op: "start", Node: s})
		}
	}
	c.ProbeKinds = rapid.SliceOfNDistinct(rapid.SampledFrom(probeKinds), 1, 3, rapid.ID[string]).Draw(t, "probeKinds")
	return c
}

type outcome struct {
	key, msg string
	slowNode int
	slowMs   int64
	lostNode int // a probe was handled and answered by the restarted server but failed at the caller
	lostErr  string
	classes  []string
	nontriv  bool
	incon    string
	events   []scen.Event
}

func once(c Case) outcome {
	var o outcome
	o.slowNode, o.lostNode = -1, -1
	cl := scen.NewCluster(c.N, 0)
	defer cl.Shutdown()
	down := map[int]bool{}
	for _, s := range c.DownAtNew {
		down[s] = true
	}
	for i := 0; i < c.N; i++ {
		if !down[i] {
			cl.Start(i)
		}
	}
	client, err := scen.NewClient(cl, c.Mgr)
	if err != nil && !strings.HasPrefix(err.Error(), "setup") && len(c.DownAtNew) > 0 {
		// not the harness's connectivity precondition: creating the configuration failed
		o.key = "C10/creation-fails-with-node-down"
		o.msg = fmt.Sprintf("creating the manager's configuration failed although the only trouble is that server(s) %v do not listen yet (blocking dial=%v): %v", c.DownAtNew, c.Mgr.WithBlock, err)
		if client != nil {
			client.Close(scen.B)
		}
		return o
	}
	if err != nil {
		o.incon = err.Error()
		return o
	}
	defer func() {
		cl.OpenAll()
		for _, call := range client.Calls() {
			call.Cancel()
		}
		client.Close(scen.B)
	}()
	restarted := map[int]bool{}
	idx := 0
	traffic := func(kind string, s int) {
		tok := scen.NewTokens(1)
		spec := scen.CallSpec{Kind: kind, Node: s, Ctx: "deadline", DeadlineUs: 150000, Script: scen.QScript{Kind: "threshold", Q: 1}}
		if scen.IsStream(kind) {
			for k := 0; k < c.N; k++ {
				cl.SetBehaviour(k, tok, scen.Behaviour{Stream: []scen.StreamItem{{Level: 1}}})
			}
		}
		call := client.NewCall(idx, tok, uint64(idx+1), spec)
		idx++
		go call.Issue()
		scen.Await(call.DoneCh(), scen.B)
	}
	for _, st := range c.Steps {
		switch st.Op {
		case "stop":
			cl.Stop(st.Node)
			down[st.Node] = true
		case "start":
			cl.Start(st.Node)
			if down[st.Node] {
				restarted[st.Node] = true
			}
			down[st.Node] = false
		case "call":
			traffic(st.Kind, st.Node)
		case "sleep":
			time.Sleep(time.Duration(st.Ms) * time.Millisecond)
		}
	}
	if len(restarted) > 0 {
		o.nontriv = true
		o.classes = append(o.classes, "node-restarted-or-late")
	}
	if len(c.DownAtNew) > 0 {
		o.classes = append(o.classes, "down-at-creation")
	}
	if c.ProbeDeadlineMs > 0 {
		o.classes = append(o.classes, "probes-with-short-deadline")
	}
	if c.Mgr.WithBlock {
		o.classes = append(o.classes, "blocking-dial")
	}
	// (a) every node (all are up now) is contacted again; (b) the first handled probe gets its reply promptly
	bo := time.Duration(c.Mgr.BackoffMs) * time.Millisecond
	if c.OneWayFirst != "" {
		// the first call a restarted node receives is one-way: nobody waits for a reply to it, but the
		// replies to the two-way calls that follow must be read all the same
		o.classes = append(o.classes, "one-way-first="+c.OneWayFirst)
		for s := 0; s < c.N; s++ {
			if !restarted[s] {
				continue
			}
			deadline := time.Now().Add(scen.B + 6*bo)
			for time.Now().Before(deadline) {
				tok := scen.NewTokens(1)
				call := client.NewCall(900+idx, tok, uint64(900+idx), scen.CallSpec{Kind: c.OneWayFirst, Node: s, Ctx: "cancel"})
				idx++
				go call.Issue()
				scen.Await(call.DoneCh(), 2*time.Second)
				if cl.Log.WaitFor(100*time.Millisecond, func(evs []scen.Event) bool {
					return scen.Count(evs, func(e scen.Event) bool { return e.Kind == "enter" && e.Token == tok && e.Server == s }) > 0
				}) {
					break
				}
				call.Cancel()
				time.Sleep(20 * time.Millisecond)
			}
		}
	}
	for s := 0; s < c.N; s++ {
		deadline := time.Now().Add(scen.B + 6*bo)
		reached := false
		for round := 0; time.Now().Before(deadline); round++ {
			tok := scen.NewTokens(1)
			pspec := scen.CallSpec{Kind: "RPC", Node: s, Ctx: "cancel"}
			if c.ProbeDeadlineMs > 0 {
				pspec.Ctx, pspec.DeadlineUs = "deadline", c.ProbeDeadlineMs*1000
			}
			call := client.NewCall(1000+idx, tok, uint64(1000+idx), pspec)
			idx++
			go call.Issue()
			// the call is given a long time: if the reply is only read when a back-off timer expires we want to see that
			r, sig := scen.Await(call.DoneCh(), scen.B)
			if r == scen.Hung {
				o.key, o.msg = "C10/probe-hangs/"+sig, fmt.Sprintf("an RPC to the restarted server %d did not return within 2x%v: %s", s, scen.B, sig)
				o.events = cl.Log.Snapshot()
				call.Cancel()
				return o
			}
			if call.Err != nil {
				// the call failed; its request may still be on its way (a call that is failed while its
				// request waits to be written is written nevertheless): give the handler a moment
				cl.Log.WaitFor(60*time.Millisecond, func(evs []scen.Event) bool {
					return scen.Count(evs, func(e scen.Event) bool { return e.Kind == "exit" && e.Token == tok && e.Server == s }) > 0
				})
			}
			evs := cl.Log.Snapshot()
			var exitT time.Time
			handled := false
			for _, e := range evs {
				if e.Kind == "exit" && e.Token == tok && e.Server == s {
					handled = true
				}
			}
			_ = exitT
			if handled {
				reached = true
				if call.Err != nil {
					// handled and answered, but the caller got an error: the reply was lost. Nothing else is
					// in flight during the probes, so a lost reply is only excused if it does not repeat.
					if o.lostNode < 0 && restarted[s] && strings.Contains(call.Err.Error(), "stream is down") {
						o.lostNode, o.lostErr = s, call.Err.Error()
					}
					continue
				}
				// measure reply latency: handler exit -> return, through wall-clock stamps kept by the call
				if d := call.ReturnedAt().Sub(cl.ExitTime(s, tok)); d > bo/2 && restarted[s] {
					o.slowNode, o.slowMs = s, d.Milliseconds()
				}
				break
			}
			time.Sleep(20 * time.Millisecond)
		}
		if !reached {
			o.key = "C10/not-contacted-again"
			o.msg = fmt.Sprintf("server %d listens again on its address but no call reached it within %v (back-off %v)", s, scen.B+6*bo, bo)
			o.events = cl.Log.Snapshot()
			return o
		}
	}
	// (a') calls of other types reach every node as well (all nodes are up and have answered an RPC)
	for _, kind := range c.ProbeKinds {
		var missing []int
		for attempt := 0; attempt < 3; attempt++ {
			tok := scen.NewTokens(1)
			spec := scen.CallSpec{Kind: kind, Ctx: "cancel", Script: scen.QScript{Kind: "threshold", Q: c.N}}
			targets := c.N
			if scen.IsNodeCall(kind) {
				spec.Node = attempt % c.N
				targets = 1
			}
			if scen.IsStream(kind) {
				for k := 0; k < c.N; k++ {
					cl.SetBehaviour(k, tok, scen.Behaviour{Stream: []scen.StreamItem{{Level: 1}}})
				}
			}
			call := client.NewCall(2000+idx, tok, uint64(2000+idx), spec)
			idx++
			go call.Issue()
			cl.Log.WaitFor(scen.B, func(evs []scen.Event) bool {
				return scen.Count(evs, func(e scen.Event) bool { return e.Kind == "enter" && e.Token == tok }) >= targets
			})
			got := map[int]bool{}
			for _, e := range cl.Log.Snapshot() {
				if e.Kind == "enter" && e.Token == tok {
					got[e.Server] = true
				}
			}
			missing = missing[:0]
			for _, sv := range call.Targets {
				if !got[sv] {
					missing = append(missing, sv)
				}
			}
			scen.Await(call.DoneCh(), 2*time.Second)
			call.Cancel()
			if len(missing) == 0 {
				break
			}
		}
		if len(missing) > 0 {
			o.key = "C10/not-contacted-again/" + strings.ToLower(kind)
			o.msg = fmt.Sprintf("every server listens again and has answered an RPC, but 3 consecutive %s calls did not reach server(s) %v within %v each", kind, missing, scen.B)
			o.events = cl.Log.Snapshot()
			return o
		}
		o.classes = append(o.classes, "probe-kind="+kind)
	}
	// (c) metadata and connect callbacks
	evs := cl.Log.Snapshot()
	o.events = evs
	accepts, cbs := map[string]int{}, map[string]int{}
	for _, e := range evs {
		k := fmt.Sprintf("%d/%d", e.Server, e.Conn)
		switch e.Kind {
		case "accept":
			accepts[k]++
		case "connectcb":
			cbs[k]++
			id := client.IDs[e.Server]
			for mk, mv := range c.Mgr.Metadata {
				has := false
				for _, g := range e.MD[mk] {
					if g == mv {
						has = true
					}
				}
				if !has {
					o.key, o.msg = "C10/metadata/general-missing", fmt.Sprintf("connection %s: metadata %q=%q missing from the connect callback's context (has %v)", k, mk, mv, e.MD)
					return o
				}
			}
			if c.Mgr.PerNodeMD {
				if got := e.MD["verif-node"]; len(got) == 0 || got[0] != fmt.Sprint(id) {
					o.key, o.msg = "C10/metadata/per-node-missing", fmt.Sprintf("connection %s to node %d: per-node metadata missing or wrong: %v", k, id, e.MD)
					return o
				}
				hasShared := false
				for _, g := range e.MD["verif-shared"] {
					if g == fmt.Sprintf("node-%d", id) {
						hasShared = true
					}
				}
				if !hasShared {
					o.key, o.msg = "C10/metadata/per-node-missing", fmt.Sprintf("connection %s to node %d: the per-node value of a key that the general metadata carries too is missing: %v", k, id, e.MD)
					return o
				}
				for mk := range e.MD {
					if strings.HasPrefix(mk, "verif-only-") && mk != fmt.Sprintf("verif-only-%d", id) {
						o.key, o.msg = "C10/metadata/foreign-per-node", fmt.Sprintf("connection %s to node %d carries another node's metadata %q", k, id, mk)
						return o
					}
				}
				if _, ok := e.MD[fmt.Sprintf("verif-only-%d", id)]; !ok {
					o.key, o.msg = "C10/metadata/per-node-missing", fmt.Sprintf("connection %s to node %d lacks its per-node key: %v", k, id, e.MD)
					return o
				}
			}
		}
	}
	for k, n := range accepts {
		if cbs[k] != n {
			o.key, o.msg = "C10/connect-callback-count", fmt.Sprintf("connection %s: %d stream(s) accepted but %d connect callback(s)", k, n, cbs[k])
			return o
		}
	}
	if len(c.Mgr.Metadata) > 0 || c.Mgr.PerNodeMD {
		o.classes = append(o.classes, "metadata")
	}
	return o
}

func run(c Case) vt.Verdict {
	o := once(c)
	if o.incon != "" {
		return vt.Verdict{OK: true, Inconclusive: true, Msg: o.incon, Classes: []string{"setup-error"}}
	}
	if o.key != "" {
		return vt.Verdict{OK: false, Key: o.key, Msg: o.msg, History: o.events, Classes: o.classes}
	}
	if o.lostNode >= 0 {
		o2 := once(c)
		if o2.lostNode >= 0 {
			return vt.Verdict{OK: false, Key: "C10/reply-lost-after-restart", History: o.events, Classes: o.classes,
				Msg: fmt.Sprintf("after server %d was restarted it handled the first request that reached it and sent its reply, but the call failed with %q (second run: server %d, %q)", o.lostNode, o.lostErr, o2.lostNode, o2.lostErr)}
		}
		o.classes = append(o.classes, "lost-reply-not-reproduced")
	}
	if o.slowNode >= 0 {
		// wall-clock evidence is confirmed by a second, independent run of the same case
		o2 := once(c)
		if o2.slowNode >= 0 {
			return vt.Verdict{OK: false, Key: "C10/reply-waits-for-backoff-timer", History: o.events, Classes: o.classes,
				Msg: fmt.Sprintf("after server %d was restarted and had handled the request and produced its reply, the RPC returned only %d ms later (second run: %d ms); the reconnection back-off is %d ms, replies otherwise take < 5 ms",
					o.slowNode, o.slowMs, o2.slowMs, c.Mgr.BackoffMs)}
		}
		return vt.Verdict{OK: true, Inconclusive: true, Msg: "slow reply not reproduced", Classes: o.classes}
	}
	return vt.Pass(o.nontriv, o.classes...)
}

func TestProp(t *testing.T) {
	vt.Main(t, vt.Spec[Case]{
		ID:           "C10",
		Rule:         "fault-sequence generation (a third of the cases directed: crash of a connected node, an outage of 20-150 ms, restart, probes at once): 1-3 nodes, any subset down when the manager is created, a generated sequence of stop / start events, traffic calls of 8 kinds with 150 ms deadlines and sleeps of 1 ms - 2.6 s (so crashes strike with calls pending and during back-off, and an outage can outlast several reconnection attempts), all nodes listening again at the end; manager metadata and per-node metadata function generated (in half of the cases with both, one key is carried by both and both values must arrive); gorums' and grpc's back-off set to 400 or 1200 ms; in a third of the cases the RPC probes carry a 150 ms deadline; in a quarter of the cases a blocking dial (grpc.WithBlock, 300 ms dial timeout). Oracle: (0) creating the configuration succeeds whatever servers are down; (a) repeated RPCs reach every node that listens again within the bound, without recreating manager or configuration, and then calls of 1-3 further generated types (quorum, per-node, async, correctable, stream, multicast, per-node multicast, unicast) reach every node as well (3 attempts each); (b) for the first RPC whose request the restarted server handled, the time from the handler's exit to the call's return must stay below half the back-off (replies otherwise take < 5 ms; a slow reply is confirmed by a second independent run of the case); a probe that the restarted server handled and answered must not fail at the caller (reported if a second independent run loses the reply again); (c) every accepted stream triggered exactly one connect callback whose context carries all general pairs and exactly the per-node pairs of that node's id; non-trivial = some node was restarted or came up after the manager was created; in half of the directed cases the first call that reaches the restarted node is one-way (Unicast or Multicast, repeated until its server has the message) and the measured two-way probes follow",
		Gen:          gen,
		Run:          run,
		TrackCurrent: true,
	})
}
