#!/usr/bin/env python3
"""tools/mutsummary.py [results.jsonl ...] : summary of a tools/mutsweep.py run (markdown)."""
import collections, glob, json, sys

files = sys.argv[1:] or glob.glob("/tmp/mutsweep/results-*.jsonl")
recs = [json.loads(l) for f in files for l in open(f)]
c = collections.Counter(r["result"] for r in recs)
print("mutants tried: %d; do not compile: %d; killed by the existing suite: %d; pass the suite: %d, of which caught by a quick check: %d, not caught: %d"
      % (len(recs), c["no-compile"], c["suite"], c["caught"] + c["survived"], c["caught"], c["survived"]))
by = collections.Counter(r.get("by") for r in recs if r["result"] == "caught")
print("caught by: " + ", ".join("%s %d" % (k, v) for k, v in sorted(by.items())))
print()
print("| file:line | operator | change | result |")
print("|-----------|----------|--------|--------|")
for r in sorted(recs, key=lambda r: (r["result"] != "survived", r["file"], r["line"])):
    if r["result"] in ("caught", "survived"):
        res = "not caught" if r["result"] == "survived" else "caught: %s %s" % (r["by"], r.get("key", "").strip().replace("violation key=", "")[:90])
        print("| %s:%d | %s | `%s` -> `%s` | %s |" % (r["file"].split("/")[-1], r["line"], r["op"], r["old"][:70].replace("|", "\\|"), r["new"][:70].replace("|", "\\|"), res.replace("|", "\\|")))
