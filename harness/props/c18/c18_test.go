// C18 — completed calls leave no residue.
package c18

import (
	"fmt"
	"sort"
	"strings"
	"testing"
	"time"

	"github.com/relab/gorums"
	"github.com/relab/gorums/ordering"
	"pgregory.net/rapid"

	"verif/peng"
	"verif/puppet"
	"verif/scen"
	"verif/vt"
)

// Case is a call sequence against the puppet cluster, or (Hostile != nil) against a node that
// answers some requests with replies that name another method.
type Case struct {
	peng.Case
	Hostile *Hostile `json:"hostile,omitempty"`
}

// Hostile is a sequence of calls to one node behind a raw server; Mismatch[i] says whether the
// reply to call i names another method (the call then ends with that node's Internal error).
type Hostile struct {
	Kinds    []string `json:"kinds"`
	Mismatch []bool   `json:"mismatch"`
}

var hostileKinds = []string{"RPC", "QC", "QCCustom", "QCPerNode", "Async", "AsyncCustom", "Corr", "CorrCustom", "CorrStream"}

func gen(t *rapid.T) Case {
	if rapid.IntRange(0, 19).Draw(t, "hostile") == 0 {
		n := rapid.IntRange(1, 12).Draw(t, "hostileCalls")
		h := &Hostile{}
		for i := 0; i < n; i++ {
			h.Kinds = append(h.Kinds, rapid.SampledFrom(hostileKinds).Draw(t, fmt.Sprintf("hkind%d", i)))
			h.Mismatch = append(h.Mismatch, rapid.IntRange(0, 2).Draw(t, fmt.Sprintf("hmis%d", i)) != 0)
		}
		return Case{Hostile: h}
	}
	return Case{Case: genProgram(t)}
}

// runHostile: calls that end because the node answered under another method's name are calls
// that ended by a node error like any other: no routing entry may stay behind.
func runHostile(h *Hostile) vt.Verdict {
	cl := scen.NewCluster(1, 0)
	defer cl.Shutdown()
	srv := scen.StartHostileServer(cl, func(n int32, req *gorums.Message) [][]byte {
		i := int(n) - 1
		if i >= len(h.Mismatch) || !h.Mismatch[i] {
			return nil
		}
		other := "puppet.Puppet.RPC"
		if req.Metadata.GetMethod() == other {
			other = "puppet.Puppet.QC"
		}
		out, err := gorums.NewCodec().Marshal(&gorums.Message{Metadata: &ordering.Metadata{MessageID: req.Metadata.GetMessageID(), Method: other}, Message: &puppet.Rep{}})
		if err != nil {
			return nil
		}
		return [][]byte{out}
	})
	defer srv.Stop()
	client, err := scen.NewClient(cl, scen.MgrOpts{})
	if err != nil {
		return vt.Verdict{OK: true, Inconclusive: true, Msg: err.Error(), Classes: []string{"setup-error"}}
	}
	defer client.Close(scen.B)
	tok := scen.NewTokens(len(h.Kinds))
	mism := 0
	for i, kind := range h.Kinds {
		call := client.NewCall(i, tok+uint64(i), uint64(i+1), scen.CallSpec{Kind: kind, Node: 0, Ctx: "deadline", DeadlineUs: 100000, Script: scen.QScript{Kind: "threshold", Q: 1}})
		pan := make(chan any, 1)
		go func() {
			defer func() { pan <- recover() }()
			call.Issue()
		}()
		if p := <-pan; p != nil {
			return vt.Fail("C18/hostile/caller-panic", "a %s call panicked when the node answered under another method's name: %v", kind, p)
		}
		if r, _ := scen.Await(call.DoneCh(), scen.B); r != scen.Done {
			call.Cancel()
			return vt.Verdict{OK: true, Inconclusive: true, Msg: "call did not end in time"}
		}
		if h.Mismatch[i] {
			mism++
		}
	}
	node := client.Node(0)
	deadline := time.Now().Add(scen.B)
	left := 0
	for {
		left = gorums.VerifRouterCount(node.RawNode)
		if left == 0 || time.Now().After(deadline) {
			break
		}
		time.Sleep(2 * time.Millisecond)
	}
	if left > 0 {
		ids, streaming := gorums.VerifRouterIDs(node.RawNode)
		return vt.Fail("C18/routing-entries-remain/reply-named-other-method", "%v after %d calls ended (%d of them because the node's reply named another method) %d per-call routing entries remain: message ids %v (stream %v)", scen.B, len(h.Kinds), mism, left, ids, streaming)
	}
	return vt.Pass(mism > 0, "hostile-node", fmt.Sprintf("replies-naming-another-method=%d", mism))
}

func genProgram(t *rapid.T) peng.Case {
	c := peng.GenProgram(t, peng.Bias{MinN: 1, MaxN: 4, MaxThreads: 4, MinOps: 10, MaxOps: 120, MaxMgrs: 1, Kinds: scen.AllKinds, Barriers: true,
		Cancel: true, MaxSleepUs: 1500, SlowQFUs: 500, StreamItems: 4, AwaitProb: 3, ErrorNodes: true, FullQuorum: true, ReleaseModes: []string{"", "early"}})
	c.Probe = true // the fence: an RPC to every node after everything has answered
	c.Jitter = peng.GenJitter(t)
	// a node that has been unreachable since it was registered: calls end by its error
	if c.N >= 2 && rapid.IntRange(0, 2).Draw(t, "downNode") == 0 {
		c.Down = []int{rapid.IntRange(0, c.N-1).Draw(t, "down")}
	}
	// transient faults: single stream writes that fail, connections that break under a server that
	// keeps listening - the calls they end leave nothing behind either
	switch rapid.IntRange(0, 7).Draw(t, "fault") {
	case 0:
		c.Mgrs[0].FailSendAt = rapid.SliceOfNDistinct(rapid.IntRange(1, 200), 1, 3, rapid.ID[int]).Draw(t, "failSendAt")
	case 1:
		k := rapid.IntRange(1, 3).Draw(t, "ncut")
		for i := 0; i < k; i++ {
			op := peng.Op{Kind: "cut", Thread: rapid.IntRange(0, c.Threads-1).Draw(t, fmt.Sprintf("cutThread%d", i)),
				Call: scen.CallSpec{Node: rapid.IntRange(0, c.N-1).Draw(t, fmt.Sprintf("cutNode%d", i))}}
			at := rapid.IntRange(0, len(c.Ops)).Draw(t, fmt.Sprintf("cutAt%d", i))
			c.Ops = append(c.Ops[:at], append([]peng.Op{op}, c.Ops[at:]...)...)
		}
	}
	return c
}

type residue struct {
	routers    map[int]int
	goroutines []string
	detail     []string
	// grpc's client-side goroutines (connections the manager's nodes hold)
	grpcClient int
	grpcKinds  map[string]int
}

// grpcPerNode bounds grpc's client-side goroutines per node once everything has settled: a
// connected node holds one ClientConn (3 callback serializers) with one transport (reader,
// writer, possibly keepalive), an unreachable one a ClientConn and its reconnection loop.
const grpcPerNode = 8

func measure(r *peng.Result) residue {
	res := residue{routers: map[int]int{}}
	for _, client := range r.Clients {
		for s := 0; s < r.Cluster.N; s++ {
			if n := client.Node(s); n != nil {
				if k := gorums.VerifRouterCount(n.RawNode); k > 0 {
					res.routers[s] = k
					ids, streaming := gorums.VerifRouterIDs(n.RawNode)
					for i := range ids {
						res.detail = append(res.detail, fmt.Sprintf("server %d: message id %d (stream=%v)", s, ids[i], streaming[i]))
					}
				}
			}
		}
	}
	res.grpcKinds = map[string]int{}
	for _, g := range scen.Stacks() {
		if k := peng.ClientGoroutine(g); strings.HasPrefix(k, "grpc-client:") {
			res.grpcClient++
			res.grpcKinds[k]++
		}
		lf := g.LibFrame()
		if strings.HasPrefix(lf, "RawConfiguration.handleAsyncCall") || strings.HasPrefix(lf, "RawConfiguration.handleCorrectableCall") || strings.HasPrefix(lf, "(*channel).sendMsg.func") {
			res.goroutines = append(res.goroutines, lf+"@"+g.State)
		}
		cb := g.CreatedBy()
		if lf == "" && (strings.Contains(cb, "gorums.RawConfiguration.AsyncCall") || strings.Contains(cb, "gorums.RawConfiguration.CorrectableCall") || strings.Contains(cb, "gorums.(*channel).sendMsg")) {
			res.goroutines = append(res.goroutines, "created by "+cb+"@"+g.State)
		}
	}
	sort.Strings(res.goroutines)
	return res
}

func run(cc Case) vt.Verdict {
	if cc.Hostile != nil {
		return runHostile(cc.Hostile)
	}
	c := cc.Case
	var final residue
	var waited bool
	r := peng.Run(c, peng.Hooks{BeforeTeardown: func(r *peng.Result) {
		// every handler has returned?
		ok := r.Cluster.Log.WaitFor(scen.B, func(evs []scen.Event) bool {
			open := 0
			for _, e := range evs {
				switch e.Kind {
				case "enter":
					open++
				case "exit":
					open--
				}
			}
			return open <= 0
		})
		waited = ok
		deadline := time.Now().Add(scen.B)
		for {
			final = measure(r)
			if (len(final.routers) == 0 && len(final.goroutines) == 0 && final.grpcClient <= grpcPerNode*c.N) || time.Now().After(deadline) {
				return
			}
			time.Sleep(2 * time.Millisecond)
		}
	}})
	if r.SetupErr != "" {
		return vt.Verdict{OK: true, Inconclusive: true, Msg: r.SetupErr, Classes: []string{"setup-error"}}
	}
	// ways of ending, measured
	ends := map[string]bool{}
	retT := map[uint64]int{}
	for _, e := range r.Events {
		if e.Kind != "return" || e.Call >= 10000 {
			continue
		}
		retT[e.Token] = e.T
		switch {
		case e.Outcome == "value":
			ends["success"] = true
		case e.Outcome == "none":
			ends["one-way"] = true
		case e.IsInc:
			ends["incomplete"] = true
		case e.IsDead:
			ends["timeout"] = true
		case e.IsCanc:
			ends["cancelled"] = true
		default:
			ends["node-error"] = true
		}
	}
	for _, e := range r.Events {
		if (e.Kind == "exit" || e.Kind == "send") && e.Serial != 0 {
			if rt, ok := retT[e.Token]; ok && rt < e.T {
				ends["quorum-before-all-replies"] = true
			}
		}
	}
	for _, ci := range r.Calls {
		if len(ci.Targets) == 0 {
			ends["zero-targets"] = true
		}
		if scen.IsStream(ci.Kind) {
			ends["stream"] = true
		}
	}
	var classes []string
	for k := range ends {
		classes = append(classes, "end="+k)
	}
	sort.Strings(classes)
	classes = append(classes, fmt.Sprintf("calls>=%d", len(r.Calls)/20*20))
	if len(r.Hung) > 0 {
		// a call that never ended is C08/C09's subject; residue cannot be judged
		return vt.Verdict{OK: true, Inconclusive: true, Msg: "a call did not end: " + r.Hung[0], Classes: classes}
	}
	if !waited {
		return vt.Verdict{OK: true, Inconclusive: true, Msg: "handlers did not all return", Classes: classes}
	}
	for _, p := range r.Probes {
		if !p.OK {
			return vt.Verdict{OK: true, Inconclusive: true, Msg: "fence RPC failed", Classes: classes}
		}
	}
	if len(final.routers) > 0 {
		total := 0
		for _, k := range final.routers {
			total += k
		}
		return vt.Verdict{OK: false, Key: "C18/routing-entries-remain", History: r.Events, Classes: classes,
			Msg: fmt.Sprintf("%v after every call ended, every handler returned and a fence RPC per node completed, %d per-call routing entries remain (per server: %v) after %d calls: %s; calls in issue order: %s", scen.B, total, final.routers, len(r.Calls), strings.Join(final.detail, ", "), issueOrder(r))}
	}
	if len(final.goroutines) > 0 {
		k := final.goroutines[0]
		if i := strings.Index(k, "@"); i >= 0 {
			k = k[:i]
		}
		return vt.Verdict{OK: false, Key: "C18/call-goroutines-remain/" + k, History: r.Events, Classes: classes,
			Msg: fmt.Sprintf("%v after every call ended, %d per-call goroutine(s) remain: %s", scen.B, len(final.goroutines), strings.Join(final.goroutines, "; "))}
	}
	if final.grpcClient > grpcPerNode*c.N {
		var kinds []string
		for k, n := range final.grpcKinds {
			kinds = append(kinds, fmt.Sprintf("%dx %s", n, k))
		}
		sort.Strings(kinds)
		return vt.Verdict{OK: false, Key: "C18/connections-pile-up", History: r.Events, Classes: classes,
			Msg: fmt.Sprintf("%v after every call ended the manager's %d nodes hold %d client-side grpc goroutines (a node needs at most %d): connections were created per call and never closed: %s", scen.B, c.N, final.grpcClient, grpcPerNode, strings.Join(kinds, "; "))}
	}
	if len(c.Down) > 0 {
		classes = append(classes, "node-never-reachable")
	}
	res := vt.Pass(len(ends) >= 3, classes...)
	res.Inconclusive = r.Late
	return res
}

func TestProp(t *testing.T) {
	vt.Main(t, vt.Spec[Case]{
		ID:           "C18",
		Rule:         "rapid-generated sequences of 10-120 calls of all 20 kinds from 1-4 threads, each ending in a generated way (quorum before all replies, exhaustion, cancellation/deadline before or after the send, node error, correctable done, stream abandoned, zero targets, future never read), in half of the cases with seeded jitter at the statement-level yield points of the instrumented runtime; in a third of the cases one node unreachable since it was registered; in a quarter of the cases transient faults (1-3 injected failures of single stream writes, or 1-3 cuts of the connections to a server that keeps listening); 1 case in 20 instead makes 1-12 calls of 9 kinds to a node behind a raw server that answers two thirds of them under another method's name (the calls end with that node's error); after the sequence every handler has returned (all gates open), every call has ended and a fence RPC to every node has completed; then, polling up to the hang bound, the number of routing entries of every node (read-only accessor injected at build time) must be 0 and no goroutine may sit in a per-call frame (async handler, correctable handler, send watcher); non-trivial (measured) = at least 3 distinct ways of ending in the sequence",
		Gen:          gen,
		Run:          run,
		TrackCurrent: true,
	})
}

// issueOrder lists the calls in the order they were issued (message ids are
// assigned in roughly that order, starting at 1).
func issueOrder(r peng.Result) string {
	var parts []string
	i := 0
	for _, e := range r.Events {
		if e.Kind == "issue" {
			i++
			parts = append(parts, fmt.Sprintf("%d:%s(call %d)", i, e.Method, e.Call))
		}
	}
	return strings.Join(parts, " ")
}
