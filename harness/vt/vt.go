// Package vt is the test-side runtime shared by every property package:
// it runs a property either as a rapid search or as a replay of saved cases,
// records coverage statistics, consults the known-findings file and writes
// failing cases as replay files.
//
// Environment (set by tools/driver.py):
//
//	VERIF_MODE   search | replay            (default search)
//	VERIF_OUT    directory for stats.json, hashes.bin, fail-*.json, replay.jsonl
//	VERIF_REPLAY colon separated list of case files (replay mode)
//	VERIF_KNOWN  path of known_findings.json
//	VERIF_TIER   quick | thorough
//	VERIF_SHARD  shard index (informational)
package vt

import (
	"bytes"
	"encoding/binary"
	"encoding/json"
	"fmt"
	"hash/fnv"
	"os"
	"path/filepath"
	"sort"
	"strings"
	"sync"
	"testing"
	"time"

	"pgregory.net/rapid"
)

// Verdict is the result of running one case.
type Verdict struct {
	// OK is false when the case violates the property.
	OK bool `json:"ok"`
	// Key is the root-cause signature of the violation (DESIGN.md 2.7).
	Key string `json:"key,omitempty"`
	// Msg describes the violation.
	Msg string `json:"msg,omitempty"`
	// Inconclusive marks a case whose outcome could not be decided
	// (harness-side trouble); never a violation.
	Inconclusive bool `json:"inconclusive,omitempty"`
	// Classes are the classification labels of this case.
	Classes []string `json:"classes,omitempty"`
	// NonTrivial says whether the case is non-trivial by the property's rule.
	NonTrivial bool `json:"nontrivial,omitempty"`
	// History optionally carries the recorded history for the replay file.
	History any `json:"history,omitempty"`
}

// Pass builds a passing verdict.
func Pass(nontrivial bool, classes ...string) Verdict {
	return Verdict{OK: true, NonTrivial: nontrivial, Classes: classes}
}

// Fail builds a violation verdict.
func Fail(key, format string, args ...any) Verdict {
	return Verdict{OK: false, Key: key, Msg: fmt.Sprintf(format, args...)}
}

// Finding is one entry of known_findings.json.
type Finding struct {
	Status   string `json:"status"` // open | fixed
	Property string `json:"property"`
	Key      string `json:"key,omitempty"`
	What     string `json:"what"`
	Repro    string `json:"repro,omitempty"`
	Commit   string `json:"commit,omitempty"`
	Line     string `json:"line,omitempty"`
}

type findingsFile struct {
	Findings []Finding `json:"findings"`
}

// Spec describes a property to Main.
type Spec[C any] struct {
	ID   string
	Rule string
	Gen  func(*rapid.T) C
	Run  func(C) Verdict
	// TrackCurrent writes the case to current.json before it runs, so that a
	// process crash can be attributed to it.
	TrackCurrent bool
	// TrackIf restricts TrackCurrent to the cases for which it returns true
	// (cheap pure cases need no crash recovery; nil = all cases).
	TrackIf func(C) bool
	// MaxSamples is the number of cases kept verbatim (default 4).
	MaxSamples int
}

type stats struct {
	mu            sync.Mutex
	Property      string            `json:"property"`
	Rule          string            `json:"rule"`
	Evaluations   int               `json:"evaluations"`
	NonTrivial    int               `json:"nontrivial_total"`
	Classes       map[string]int    `json:"classes"`
	Excluded      map[string]int    `json:"excluded_known"`
	Inconclusive  int               `json:"inconclusive"`
	Samples       []json.RawMessage `json:"samples"`
	Failures      []failureRec      `json:"failures"`
	Completed     bool              `json:"completed"`
	hashes        map[uint64]struct{}
	out           string
	maxSamples    int
	failing       bool
	sampleEvery   int
	nontrivSample int
}

type failureRec struct {
	Key  string `json:"key"`
	Msg  string `json:"msg"`
	File string `json:"file"`
}

func (s *stats) flush() {
	if s.out == "" {
		return
	}
	s.mu.Lock()
	defer s.mu.Unlock()
	b, _ := json.MarshalIndent(s, "", " ")
	tmp := filepath.Join(s.out, "stats.json.tmp")
	_ = os.WriteFile(tmp, b, 0o644)
	_ = os.Rename(tmp, filepath.Join(s.out, "stats.json"))
	hs := make([]uint64, 0, len(s.hashes))
	for h := range s.hashes {
		hs = append(hs, h)
	}
	sort.Slice(hs, func(i, j int) bool { return hs[i] < hs[j] })
	buf := make([]byte, 8*len(hs))
	for i, h := range hs {
		binary.LittleEndian.PutUint64(buf[8*i:], h)
	}
	_ = os.WriteFile(filepath.Join(s.out, "hashes.bin"), buf, 0o644)
}

func hashOf(b []byte) uint64 {
	h := fnv.New64a()
	_, _ = h.Write(b)
	return h.Sum64()
}

func loadKnown(id string) map[string]Finding {
	res := map[string]Finding{}
	p := os.Getenv("VERIF_KNOWN")
	if p == "" {
		return res
	}
	b, err := os.ReadFile(p)
	if err != nil {
		return res
	}
	var ff findingsFile
	if err := json.Unmarshal(b, &ff); err != nil {
		return res
	}
	for _, f := range ff.Findings {
		if f.Property == id && f.Status == "open" && f.Key != "" {
			res[f.Key] = f
		}
	}
	return res
}

// Tier returns the tier the check runs at.
func Tier() string {
	if os.Getenv("VERIF_TIER") == "thorough" {
		return "thorough"
	}
	return "quick"
}

// FailFile is what a replay file looks like.
type FailFile[C any] struct {
	Property string  `json:"property"`
	Case     C       `json:"case"`
	Verdict  Verdict `json:"verdict"`
	Note     string  `json:"note,omitempty"`
}

// Spoiled, if set, is asked after every case whether the environment broke the
// case's fault model while it ran (returns a reason, or ""). A failing verdict of
// a spoiled case is not believed: the case counts as inconclusive (class
// spoiled-by-environment). The scenario toolkit sets it (scen/loadfault.go):
// connection attempts to reachable servers that the transport aborted because
// the machine was too busy to finish them within their connect deadline.
var Spoiled func() string

func runCase[C any](run func(C) Verdict, c C) Verdict {
	if Spoiled != nil {
		_ = Spoiled() // forget what happened between cases
	}
	v := run(c)
	if Spoiled != nil {
		if why := Spoiled(); why != "" {
			v.Classes = append(v.Classes, "spoiled-by-environment")
			if !v.OK {
				return Verdict{OK: true, Inconclusive: true, Classes: v.Classes,
					Msg: "not evaluated: " + why + " (the case would have been reported as " + v.Key + ")"}
			}
		}
	}
	return v
}

// Main runs the property in the mode the environment selects.
func Main[C any](t *testing.T, sp Spec[C]) {
	mode := os.Getenv("VERIF_MODE")
	out := os.Getenv("VERIF_OUT")
	if out != "" {
		_ = os.MkdirAll(out, 0o755)
	}
	known := loadKnown(sp.ID)
	if mode == "replay" {
		replay(t, sp, out, known)
		return
	}
	if sp.MaxSamples == 0 {
		sp.MaxSamples = 4
	}
	st := &stats{Property: sp.ID, Rule: sp.Rule, Classes: map[string]int{}, Excluded: map[string]int{},
		hashes: map[uint64]struct{}{}, out: out, maxSamples: sp.MaxSamples}
	defer func() {
		st.Completed = !t.Failed()
		st.flush()
	}()
	nfail := 0
	// rapid checks its shrink deadline only between passes; a single pass over a
	// case whose failing runs are slow (confirmed hangs) can overrun it by far.
	// After the budget the wrapper stops executing shrink candidates (they are
	// reported as passing, i.e. rejected) and answers the final re-run of the
	// minimal case from the cached verdict.
	budget := 30 * time.Second
	if b := os.Getenv("VERIF_SHRINK_BUDGET_S"); b != "" {
		var n int
		if _, err := fmt.Sscanf(b, "%d", &n); err == nil && n > 0 {
			budget = time.Duration(n) * time.Second
		}
	}
	var firstFail time.Time
	var lastFailJSON []byte
	var lastFailMsg string
	rapid.Check(t, func(rt *rapid.T) {
		c := sp.Gen(rt)
		cb, err := json.Marshal(c)
		if err != nil {
			t.Fatalf("harness: case not serialisable: %v", err)
		}
		if !firstFail.IsZero() && time.Since(firstFail) > budget {
			if bytes.Equal(cb, lastFailJSON) {
				rt.Fatalf("%s", lastFailMsg)
			}
			return
		}
		if sp.TrackCurrent && out != "" {
			if sp.TrackIf == nil || sp.TrackIf(c) {
				_ = os.WriteFile(filepath.Join(out, "current.json"), cb, 0o644)
			} else {
				_ = os.Remove(filepath.Join(out, "current.json"))
			}
		}
		v := runCase(sp.Run, c)
		st.mu.Lock()
		st.Evaluations++
		for _, cl := range v.Classes {
			st.Classes[cl]++
		}
		if v.Inconclusive {
			st.Inconclusive++
			if st.Inconclusive <= 3 && v.Msg != "" {
				// the first few reasons go to the shard's log (the driver quotes the counts only)
				fmt.Fprintf(os.Stderr, "inconclusive case: %s\n", firstRunes(v.Msg, 600))
			}
		}
		if v.NonTrivial && v.OK {
			st.NonTrivial++
			st.hashes[hashOf(cb)] = struct{}{}
			// keep a few non-trivial samples spread over the run
			if len(st.Samples) < st.maxSamples && st.NonTrivial >= st.nontrivSample {
				st.Samples = append(st.Samples, json.RawMessage(cb))
				st.nontrivSample = st.NonTrivial*4 + 1
			}
		}
		n := st.Evaluations
		st.mu.Unlock()
		if n%2000 == 0 {
			st.flush()
		}
		if v.OK || v.Inconclusive {
			return
		}
		if f, ok := known[v.Key]; ok {
			st.mu.Lock()
			st.Excluded[f.Key]++
			st.mu.Unlock()
			return
		}
		// a violation: keep the first one (unshrunk, with history) and the latest
		// (rapid shrinks, so the last failing case is the minimal one).
		if out != "" {
			ff := FailFile[C]{Property: sp.ID, Case: c, Verdict: v}
			b, _ := json.MarshalIndent(ff, "", " ")
			name := "fail-min.json"
			if nfail == 0 {
				_ = os.WriteFile(filepath.Join(out, "fail-first.json"), b, 0o644)
			}
			_ = os.WriteFile(filepath.Join(out, name), b, 0o644)
			_ = os.WriteFile(filepath.Join(out, "fail-verdict.json"), mustJSON(v), 0o644)
		}
		nfail++
		if firstFail.IsZero() {
			firstFail = time.Now()
		}
		lastFailJSON = cb
		lastFailMsg = fmt.Sprintf("VIOLATION key=%s: %s", v.Key, v.Msg)
		rt.Fatalf("%s", lastFailMsg)
	})
}

func mustJSON(v any) []byte {
	b, _ := json.Marshal(v)
	return b
}

// replayResult is one line of replay.jsonl.
type replayResult struct {
	File    string  `json:"file"`
	Verdict Verdict `json:"verdict"`
	Known   bool    `json:"known"`
	What    string  `json:"what,omitempty"`
	Err     string  `json:"err,omitempty"`
}

func replay[C any](t *testing.T, sp Spec[C], out string, known map[string]Finding) {
	files := strings.Split(os.Getenv("VERIF_REPLAY"), ":")
	repeat := 1
	if r := os.Getenv("VERIF_REPLAY_REPEAT"); r != "" {
		fmt.Sscanf(r, "%d", &repeat)
	}
	var w *os.File
	if out != "" {
		w, _ = os.Create(filepath.Join(out, "replay.jsonl"))
		defer w.Close()
	}
	emit := func(r replayResult) {
		if w != nil {
			_, _ = w.Write(append(mustJSON(r), '\n'))
			_ = w.Sync()
		}
	}
	for _, f := range files {
		if f == "" {
			continue
		}
		b, err := os.ReadFile(f)
		if err != nil {
			emit(replayResult{File: f, Err: err.Error()})
			continue
		}
		var ff FailFile[C]
		if err := json.Unmarshal(b, &ff); err != nil {
			emit(replayResult{File: f, Err: "decode: " + err.Error()})
			continue
		}
		if sp.TrackCurrent && out != "" {
			_ = os.WriteFile(filepath.Join(out, "current.json"), mustJSON(ff.Case), 0o644)
			_ = os.WriteFile(filepath.Join(out, "current-file.txt"), []byte(f), 0o644)
		}
		var v Verdict
		incon := 0
		for i := 0; i < repeat; i++ {
			v = runCase(sp.Run, ff.Case)
			if !v.OK && !v.Inconclusive {
				break
			}
			if v.Inconclusive {
				incon++
				t.Logf("replay %s: run %d inconclusive: %s", f, i, v.Msg)
			}
		}
		r := replayResult{File: f, Verdict: v}
		if !v.OK {
			if kf, ok := known[v.Key]; ok {
				r.Known, r.What = true, kf.What
			}
			t.Logf("replay %s: FAIL key=%s %s", f, v.Key, v.Msg)
		} else {
			t.Logf("replay %s: ok", f)
		}
		r.Verdict.History = nil
		emit(r)
	}
}

func firstRunes(s string, n int) string {
	if len(s) > n {
		return s[:n] + "..."
	}
	return s
}
