//go:build race

package scen

// RaceBuild reports whether the binary was built with the race detector (an order of
// magnitude slower: time settings that only have to be "short" are scaled up).
const RaceBuild = true
