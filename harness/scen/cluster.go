package scen

import (
	"context"
	"errors"
	"fmt"
	"hash/fnv"
	"sync"
	"sync/atomic"
	"time"

	"github.com/relab/gorums"
	"google.golang.org/grpc"
	"google.golang.org/grpc/codes"
	"google.golang.org/grpc/metadata"
	"google.golang.org/grpc/status"

	"verif/puppet"
)

// StreamItem is one reply of a server-stream handler.
type StreamItem struct {
	Level   int32 `json:"level"`
	Gate    bool  `json:"gate,omitempty"`
	SleepUs int   `json:"sleep_us,omitempty"`
}

// Behaviour scripts what a handler does for one (server, token).
type Behaviour struct {
	// Release: "" (implicit on return), early, twice, helper (from another
	// goroutine before returning), helper-late (from another goroutine after
	// the handler returned), early+helper-late.
	Release string `json:"release,omitempty"`
	// Gate makes the handler wait until the harness opens its gate.
	Gate bool `json:"gate,omitempty"`
	// SleepUs delays the answer (after the gate).
	SleepUs int `json:"sleep_us,omitempty"`
	// ErrCode > 0 makes the handler fail with that status code.
	ErrCode int    `json:"err_code,omitempty"`
	ErrMsg  string `json:"err_msg,omitempty"`
	// PlainErr makes the handler fail with a non-status Go error.
	PlainErr bool `json:"plain_err,omitempty"`
	// WithReply returns a reply together with the error.
	WithReply bool `json:"with_reply,omitempty"`
	// Payload is the size of the reply payload.
	Payload int   `json:"payload,omitempty"`
	Level   int32 `json:"level,omitempty"`
	// Stream is the list of replies of a server-stream handler.
	Stream []StreamItem `json:"stream,omitempty"`
	// WrapErr wraps the status error the handler returns: 1 = fmt.Errorf("...: %w"), 2 = wrapped
	// twice, 3 = errors.Join with a plain error (grpc's status.FromError looks through all three).
	WrapErr int `json:"wrap_err,omitempty"`
	// StampErr appends " tok=<token> srv=<server>" to the error message.
	StampErr bool `json:"stamp_err,omitempty"`
	// StreamEndless makes a server-stream handler keep sending replies (after
	// the scripted ones) until sending fails or the case is torn down.
	StreamEndless bool `json:"stream_endless,omitempty"`
	// EndGate makes a server-stream handler wait for gate number len(Stream)
	// before it returns (with its error or nil).
	EndGate bool `json:"end_gate,omitempty"`
}

type bkey struct {
	server int
	token  uint64
}

type gkey struct {
	server int
	token  uint64
	item   int // -1 for the handler gate, >=0 for stream items
}

// Cluster is a set of puppet servers on a fabric.
type Cluster struct {
	Fab        *Fabric
	Log        *Log
	N          int
	RecvBuffer uint

	mu       sync.Mutex
	servers  []*gorums.Server
	up       []bool
	behav    map[bkey]Behaviour
	Default  Behaviour
	gates    map[gkey]chan struct{}
	allOpen  bool
	teardown chan struct{}
	conns    sync.Map // context.Context -> int
	nconn    int32
	serial   []uint64
	wg       sync.WaitGroup
	// Panics recovered in stream goroutines (C13 end-to-end)
	Panics int32
	// CallOf maps token -> call index for logging (set by the client side)
	callOf sync.Map
	// exitAt keeps the wall-clock time of handler exits (bkey -> time.Time); only C10 reads it
	exitAt sync.Map
}

// NewCluster creates n servers (not started).
func NewCluster(n int, recvBuffer uint) *Cluster {
	return &Cluster{
		Fab: NewFabric(), Log: NewLog(), N: n, RecvBuffer: recvBuffer,
		servers: make([]*gorums.Server, n), up: make([]bool, n),
		behav: map[bkey]Behaviour{}, gates: map[gkey]chan struct{}{},
		teardown: make(chan struct{}), serial: make([]uint64, n),
	}
}

// SetBehaviour scripts the handler of (server, token).
func (c *Cluster) SetBehaviour(server int, token uint64, b Behaviour) {
	c.mu.Lock()
	c.behav[bkey{server, token}] = b
	c.mu.Unlock()
}

func (c *Cluster) behaviour(server int, token uint64) Behaviour {
	c.mu.Lock()
	defer c.mu.Unlock()
	if b, ok := c.behav[bkey{server, token}]; ok {
		return b
	}
	return c.Default
}

func (c *Cluster) gate(k gkey) chan struct{} {
	c.mu.Lock()
	defer c.mu.Unlock()
	g, ok := c.gates[k]
	if !ok {
		g = make(chan struct{})
		if c.allOpen {
			close(g)
		}
		c.gates[k] = g
	}
	return g
}

// Open opens the gate of (server, token); item -1 is the handler gate.
func (c *Cluster) Open(server int, token uint64, item int) {
	g := c.gate(gkey{server, token, item})
	c.mu.Lock()
	select {
	case <-g:
	default:
		close(g)
	}
	c.mu.Unlock()
}

// OpenAll opens every gate, now and in the future.
func (c *Cluster) OpenAll() {
	c.mu.Lock()
	c.allOpen = true
	for _, g := range c.gates {
		select {
		case <-g:
		default:
			close(g)
		}
	}
	c.mu.Unlock()
}

// SetCall associates a token with a call index for the log.
func (c *Cluster) SetCall(token uint64, call int) { c.callOf.Store(token, call) }

func (c *Cluster) callIdx(token uint64) int {
	if v, ok := c.callOf.Load(token); ok {
		return v.(int)
	}
	return -1
}

// Up reports whether server i is running.
func (c *Cluster) Up(i int) bool {
	c.mu.Lock()
	defer c.mu.Unlock()
	return c.up[i]
}

// Start starts server i (listening on its fabric address).
func (c *Cluster) Start(i int) {
	c.mu.Lock()
	if c.up[i] {
		c.mu.Unlock()
		return
	}
	srv := gorums.NewServer(
		gorums.WithReceiveBufferSize(c.RecvBuffer),
		gorums.WithConnectCallback(func(ctx context.Context) { c.onConnect(i, ctx) }),
		gorums.WithGRPCServerOptions(grpc.StreamInterceptor(c.interceptor(i))),
	)
	puppet.RegisterPuppetServer(srv, &impl{c: c, i: i})
	c.servers[i] = srv
	c.up[i] = true
	lis := c.Fab.Listen(Addr(i))
	c.mu.Unlock()
	c.Log.Add(Event{Kind: "start", Server: i, Call: -1})
	c.wg.Add(1)
	go func() {
		defer c.wg.Done()
		_ = srv.Serve(lis)
	}()
}

// Stop stops server i: its listener disappears and all connections are reset.
func (c *Cluster) Stop(i int) {
	c.mu.Lock()
	if !c.up[i] {
		c.mu.Unlock()
		return
	}
	srv := c.servers[i]
	c.up[i] = false
	c.mu.Unlock()
	c.Fab.Unlisten(Addr(i))
	c.Log.Add(Event{Kind: "stop", Server: i, Call: -1})
	srv.Stop()
	c.Log.Add(Event{Kind: "stopped", Server: i, Call: -1})
}

// Partition makes server i unreachable without stopping it: new connection attempts to its
// address get no answer (they block until Fab.Unblock/UnblockAll) and the established
// connections break. It is logged as a stop: for the client the node has failed.
func (c *Cluster) Partition(i int) {
	c.Fab.Block(Addr(i))
	c.Log.Add(Event{Kind: "stop", Server: i, Call: -1, Note: "partition"})
	n := c.Fab.Cut(Addr(i))
	c.Log.Add(Event{Kind: "stopped", Server: i, Call: -1, N: n, Note: "partition"})
}

// Cut breaks the established connections to server i; the server keeps running and listening.
func (c *Cluster) Cut(i int) {
	n := c.Fab.Cut(Addr(i))
	c.Log.Add(Event{Kind: "cut", Server: i, Call: -1, N: n})
}

var lateSeq int32

// RegisterLate registers one more (never called) handler on the running server i, in a
// goroutine of its own: the caller waits at most 50 ms for it.
func (c *Cluster) RegisterLate(i int) {
	c.mu.Lock()
	srv := c.servers[i]
	up := c.up[i]
	c.mu.Unlock()
	if srv == nil || !up {
		return
	}
	name := fmt.Sprintf("verif.Late.M%d", atomic.AddInt32(&lateSeq, 1))
	done := make(chan struct{})
	go func() {
		defer close(done)
		srv.RegisterHandler(name, func(gorums.ServerCtx, *gorums.Message, chan<- *gorums.Message) {})
	}()
	c.Log.Add(Event{Kind: "register", Server: i, Call: -1, Note: name})
	waitCh(done, 50*time.Millisecond)
}

// Shutdown opens all gates and stops all servers.
func (c *Cluster) Shutdown() {
	c.OpenAll()
	select {
	case <-c.teardown:
	default:
		close(c.teardown)
	}
	c.Fab.UnblockAll()
	for i := 0; i < c.N; i++ {
		c.Stop(i)
	}
	done := make(chan struct{})
	go func() { c.wg.Wait(); close(done) }()
	waitCh(done, 5*time.Second)
}

func (c *Cluster) connID(ctx context.Context) int {
	if v, ok := c.conns.Load(ctx); ok {
		return v.(int)
	}
	id := int(atomic.AddInt32(&c.nconn, 1))
	v, _ := c.conns.LoadOrStore(ctx, id)
	return v.(int)
}

func (c *Cluster) onConnect(i int, ctx context.Context) {
	md, _ := metadata.FromIncomingContext(ctx)
	cp := map[string][]string{}
	for k, v := range md {
		cp[k] = append([]string(nil), v...)
	}
	c.Log.Add(Event{Kind: "connectcb", Server: i, Call: -1, Conn: c.connID(ctx), MD: cp})
}

func (c *Cluster) interceptor(i int) grpc.StreamServerInterceptor {
	return func(srv any, ss grpc.ServerStream, info *grpc.StreamServerInfo, handler grpc.StreamHandler) (err error) {
		c.Log.Add(Event{Kind: "accept", Server: i, Call: -1, Conn: c.connID(ss.Context()), Method: info.FullMethod})
		defer func() {
			if r := recover(); r != nil {
				atomic.AddInt32(&c.Panics, 1)
				c.Log.Add(Event{Kind: "server-panic", Server: i, Call: -1, Conn: c.connID(ss.Context()), Note: fmt.Sprint(r)})
				err = status.Errorf(codes.Internal, "panic: %v", r)
			}
			c.Log.Add(Event{Kind: "closed", Server: i, Call: -1, Conn: c.connID(ss.Context())})
		}()
		return handler(srv, ss)
	}
}

// PayloadFor is the deterministic reply payload of (server, token).
func PayloadFor(server int, token uint64, size int) []byte {
	if size <= 0 {
		return nil
	}
	b := make([]byte, size)
	x := token*1099511628211 + uint64(server)*40503 + 17
	for i := range b {
		x ^= x << 13
		x ^= x >> 7
		x ^= x << 17
		b[i] = byte(x)
	}
	return b
}

// HashBytes is the payload hash used in the log.
func HashBytes(b []byte) uint64 {
	if len(b) == 0 {
		return 0
	}
	h := fnv.New64a()
	_, _ = h.Write(b)
	return h.Sum64()
}

// impl implements the generated puppet.Puppet server interface for server i.
type impl struct {
	c *Cluster
	i int
}

type handlerRun struct {
	b        Behaviour
	exited   chan struct{}
	released int32
}

func (s *impl) enter(ctx gorums.ServerCtx, method string, req *puppet.Req) *handlerRun {
	c := s.c
	b := c.behaviour(s.i, req.GetToken())
	conn := c.connID(ctx.Context)
	call := c.callIdx(req.GetToken())
	c.Log.Add(Event{Kind: "enter", Server: s.i, Conn: conn, Call: call, Method: method, Token: req.GetToken(),
		Seq: req.GetSeq(), Tag: req.GetNodeTag(), PayHash: HashBytes(req.GetPayload()), Note: req.GetNote()})
	hr := &handlerRun{b: b, exited: make(chan struct{})}
	// the release event is logged BEFORE Release is called: the next handler
	// can only start after the actual unlock, hence after this event.
	rel := func(kind string) {
		c.Log.Add(Event{Kind: "release", Server: s.i, Conn: conn, Call: call, Method: method, Token: req.GetToken(), Seq: req.GetSeq(), Note: kind})
		ctx.Release()
	}
	switch b.Release {
	case "early":
		rel("early")
	case "twice":
		rel("early")
		ctx.Release()
	case "helper":
		done := make(chan struct{})
		go func() { rel("helper"); close(done) }()
		<-done
	case "helper-late":
		go func() { <-hr.exited; time.Sleep(200 * time.Microsecond); ctx.Release() }()
	case "early+helper-late":
		rel("early")
		go func() { <-hr.exited; ctx.Release(); ctx.Release() }()
	case "concurrent":
		// several goroutines race to release
		c.Log.Add(Event{Kind: "release", Server: s.i, Conn: conn, Call: call, Method: method, Token: req.GetToken(), Seq: req.GetSeq(), Note: "concurrent"})
		var wg sync.WaitGroup
		for k := 0; k < 3; k++ {
			wg.Add(1)
			go func() { defer wg.Done(); ctx.Release() }()
		}
		wg.Wait()
	}
	return hr
}

func (s *impl) wait(gk gkey, gated bool, sleepUs int) {
	if gated {
		select {
		case <-s.c.gate(gk):
		case <-s.c.teardown:
		}
	}
	if sleepUs > 0 {
		t := time.NewTimer(time.Duration(sleepUs) * time.Microsecond)
		select {
		case <-t.C:
		case <-s.c.teardown:
			t.Stop()
		}
	}
}

func (s *impl) nextSerial() uint64 {
	s.c.mu.Lock()
	defer s.c.mu.Unlock()
	s.c.serial[s.i]++
	return s.c.serial[s.i]
}

func (s *impl) errOf(b Behaviour, token uint64) error {
	return HandlerErr(b, token, s.i)
}

// HandlerErr is the error a handler with behaviour b returns for the request with the given
// token on server srv (nil if the behaviour does not fail).
func HandlerErr(b Behaviour, token uint64, srv int) error {
	msg := b.ErrMsg
	if b.StampErr {
		// the error names the request it answers and the server that produced it (error provenance)
		msg = fmt.Sprintf("%s tok=%d srv=%d", b.ErrMsg, token, srv)
	}
	if b.PlainErr {
		return errors.New(msg)
	}
	if b.ErrCode <= 0 {
		return nil
	}
	err := status.Error(codes.Code(b.ErrCode), msg)
	switch b.WrapErr {
	case 1:
		return fmt.Errorf("handler: %w", err)
	case 2:
		return fmt.Errorf("outer: %w", fmt.Errorf("inner: %w", err))
	case 3:
		return errors.Join(err, errors.New("and another thing"))
	}
	return err
}

func (s *impl) twoWay(ctx gorums.ServerCtx, method string, req *puppet.Req) (*puppet.Rep, error) {
	hr := s.enter(ctx, method, req)
	defer close(hr.exited)
	b := hr.b
	s.wait(gkey{s.i, req.GetToken(), -1}, b.Gate, b.SleepUs)
	err := s.errOf(b, req.GetToken())
	var rep *puppet.Rep
	ev := Event{Kind: "exit", Server: s.i, Conn: s.c.connID(ctx.Context), Call: s.c.callIdx(req.GetToken()), Method: method,
		Token: req.GetToken(), Seq: req.GetSeq()}
	if err == nil || b.WithReply {
		serial := s.nextSerial()
		pay := PayloadFor(s.i, req.GetToken(), b.Payload)
		rep = &puppet.Rep{Token: req.GetToken(), Seq: req.GetSeq(), Node: uint32(s.i), Serial: serial, Level: b.Level,
			Payload: pay, NodeTag: req.GetNodeTag(), Rich: req.GetRich()}
		ev.Serial, ev.PayHash = serial, HashBytes(pay)
	}
	if err != nil {
		ev.ErrCode, ev.ErrMsg = int(status.Code(err)), b.ErrMsg
		if b.PlainErr {
			ev.ErrCode = int(codes.Unknown)
		}
	}
	s.c.exitAt.Store(bkey{s.i, req.GetToken()}, time.Now())
	s.c.Log.Add(ev)
	return rep, err
}

func (s *impl) oneWay(ctx gorums.ServerCtx, method string, req *puppet.Req) {
	hr := s.enter(ctx, method, req)
	defer close(hr.exited)
	b := hr.b
	s.wait(gkey{s.i, req.GetToken(), -1}, b.Gate, b.SleepUs)
	s.c.Log.Add(Event{Kind: "exit", Server: s.i, Conn: s.c.connID(ctx.Context), Call: s.c.callIdx(req.GetToken()), Method: method,
		Token: req.GetToken(), Seq: req.GetSeq()})
}

func (s *impl) stream(ctx gorums.ServerCtx, method string, req *puppet.Req, send func(*puppet.Rep) error) error {
	hr := s.enter(ctx, method, req)
	defer close(hr.exited)
	b := hr.b
	conn := s.c.connID(ctx.Context)
	call := s.c.callIdx(req.GetToken())
	s.wait(gkey{s.i, req.GetToken(), -1}, b.Gate, b.SleepUs)
	items := b.Stream
	for k, it := range items {
		s.wait(gkey{s.i, req.GetToken(), k}, it.Gate, it.SleepUs)
		serial := s.nextSerial()
		pay := PayloadFor(s.i, req.GetToken()+uint64(k)*7919, b.Payload)
		rep := &puppet.Rep{Token: req.GetToken(), Seq: req.GetSeq(), Node: uint32(s.i), Serial: serial, Level: it.Level,
			Payload: pay, NodeTag: req.GetNodeTag()}
		s.c.Log.Add(Event{Kind: "send", Server: s.i, Conn: conn, Call: call, Method: method, Token: req.GetToken(), Seq: req.GetSeq(),
			Serial: serial, Item: k, Level: int(it.Level), PayHash: HashBytes(pay)})
		if err := send(rep); err != nil {
			s.c.Log.Add(Event{Kind: "exit", Server: s.i, Conn: conn, Call: call, Method: method, Token: req.GetToken(), Seq: req.GetSeq(), Note: "send failed: " + err.Error()})
			return err
		}
	}
	if b.StreamEndless {
		// an unbounded stream; only the first extra reply is logged
		for k := len(items); ; k++ {
			select {
			case <-s.c.teardown:
				k = -1
			default:
			}
			if k < 0 {
				break
			}
			serial := s.nextSerial()
			rep := &puppet.Rep{Token: req.GetToken(), Seq: req.GetSeq(), Node: uint32(s.i), Serial: serial, Level: int32(k + 1), NodeTag: req.GetNodeTag()}
			if k == len(items) {
				s.c.Log.Add(Event{Kind: "send", Server: s.i, Conn: conn, Call: call, Method: method, Token: req.GetToken(), Seq: req.GetSeq(),
					Serial: serial, Item: k, Level: k + 1, Note: "endless stream starts"})
			}
			if err := send(rep); err != nil {
				s.c.Log.Add(Event{Kind: "exit", Server: s.i, Conn: conn, Call: call, Method: method, Token: req.GetToken(), Seq: req.GetSeq(), Note: "endless stream ended: " + err.Error()})
				return err
			}
		}
	}
	if b.EndGate {
		s.wait(gkey{s.i, req.GetToken(), len(items)}, true, 0)
	}
	err := s.errOf(b, req.GetToken())
	ev := Event{Kind: "exit", Server: s.i, Conn: conn, Call: call, Method: method, Token: req.GetToken(), Seq: req.GetSeq()}
	if err != nil {
		ev.ErrCode, ev.ErrMsg = int(status.Code(err)), b.ErrMsg
	}
	s.c.Log.Add(ev)
	return err
}

func (s *impl) RPC(ctx gorums.ServerCtx, r *puppet.Req) (*puppet.Rep, error) {
	return s.twoWay(ctx, "RPC", r)
}
func (s *impl) QC(ctx gorums.ServerCtx, r *puppet.Req) (*puppet.Rep, error) {
	return s.twoWay(ctx, "QC", r)
}
func (s *impl) QCPerNode(ctx gorums.ServerCtx, r *puppet.Req) (*puppet.Rep, error) {
	return s.twoWay(ctx, "QCPerNode", r)
}
func (s *impl) QCCustom(ctx gorums.ServerCtx, r *puppet.Req) (*puppet.Rep, error) {
	return s.twoWay(ctx, "QCCustom", r)
}
func (s *impl) QCCombo(ctx gorums.ServerCtx, r *puppet.Req) (*puppet.Rep, error) {
	return s.twoWay(ctx, "QCCombo", r)
}
func (s *impl) Async(ctx gorums.ServerCtx, r *puppet.Req) (*puppet.Rep, error) {
	return s.twoWay(ctx, "Async", r)
}
func (s *impl) AsyncPerNode(ctx gorums.ServerCtx, r *puppet.Req) (*puppet.Rep, error) {
	return s.twoWay(ctx, "AsyncPerNode", r)
}
func (s *impl) AsyncCustom(ctx gorums.ServerCtx, r *puppet.Req) (*puppet.Rep, error) {
	return s.twoWay(ctx, "AsyncCustom", r)
}
func (s *impl) AsyncCombo(ctx gorums.ServerCtx, r *puppet.Req) (*puppet.Rep, error) {
	return s.twoWay(ctx, "AsyncCombo", r)
}
func (s *impl) Corr(ctx gorums.ServerCtx, r *puppet.Req) (*puppet.Rep, error) {
	return s.twoWay(ctx, "Corr", r)
}
func (s *impl) CorrPerNode(ctx gorums.ServerCtx, r *puppet.Req) (*puppet.Rep, error) {
	return s.twoWay(ctx, "CorrPerNode", r)
}
func (s *impl) CorrCustom(ctx gorums.ServerCtx, r *puppet.Req) (*puppet.Rep, error) {
	return s.twoWay(ctx, "CorrCustom", r)
}
func (s *impl) CorrCombo(ctx gorums.ServerCtx, r *puppet.Req) (*puppet.Rep, error) {
	return s.twoWay(ctx, "CorrCombo", r)
}
func (s *impl) CorrStream(ctx gorums.ServerCtx, r *puppet.Req, send func(*puppet.Rep) error) error {
	return s.stream(ctx, "CorrStream", r, send)
}
func (s *impl) CorrStreamPerNode(ctx gorums.ServerCtx, r *puppet.Req, send func(*puppet.Rep) error) error {
	return s.stream(ctx, "CorrStreamPerNode", r, send)
}
func (s *impl) CorrStreamCustom(ctx gorums.ServerCtx, r *puppet.Req, send func(*puppet.Rep) error) error {
	return s.stream(ctx, "CorrStreamCustom", r, send)
}
func (s *impl) CorrStreamCombo(ctx gorums.ServerCtx, r *puppet.Req, send func(*puppet.Rep) error) error {
	return s.stream(ctx, "CorrStreamCombo", r, send)
}
func (s *impl) Multicast(ctx gorums.ServerCtx, r *puppet.Req) { s.oneWay(ctx, "Multicast", r) }
func (s *impl) MulticastPerNode(ctx gorums.ServerCtx, r *puppet.Req) {
	s.oneWay(ctx, "MulticastPerNode", r)
}
func (s *impl) Unicast(ctx gorums.ServerCtx, r *puppet.Req) { s.oneWay(ctx, "Unicast", r) }

// ExitTime returns the wall-clock time at which the handler of (server, token) exited.
func (c *Cluster) ExitTime(server int, token uint64) time.Time {
	if v, ok := c.exitAt.Load(bkey{server, token}); ok {
		return v.(time.Time)
	}
	return time.Now()
}
