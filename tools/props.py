"""Per-property configuration of the driver."""

ASSUMPTIONS = {
    "*": [
        "the Go toolchain, runtime and standard library, pgregory.net/rapid, grpc-go and protobuf-go are trusted",
        "search is sampling: absence of a counterexample in the generated cases is not a proof of absence",
    ],
    "C19": ["nodes are built through an injected constructor (overlay) that sets id, address and last error directly"],
}

PROPS = {
    "C19": {
        "pkg": "./props/c19", "overlay": "access", "level": "exploration", "engine": "pure",
        "technique": "property-based testing (rapid): generated node slices x key sequences against a lexicographic reference model plus strict-weak-order laws",
        "level_text": "dense random search over small scopes (ids, ports and error flags drawn from small pools so that ties dominate): every provided key is checked against its documented meaning and the four strict-weak-order laws on all triples, and every sort result is checked to be an ordered permutation under the model keys; sampling, not proof",
        "quick": {"checks": 20000, "shards": 1, "timeout": 300},
        "thorough": {"checks": 200000, "shards": 16, "timeout": 1200},
    },
}
