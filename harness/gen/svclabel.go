package gen

// Labelling of service definitions (C16): Analyze computes, from the
// definition alone, its label and the list of its suspicious features;
// Neutralise derives the variant of a definition that keeps one feature and
// legalises everything else (used to attribute a failure to a root cause).
//
// Label rules (doc/method-options.md, zorums.proto, validateOptions/gorumsGuard
// diagnostics):
//
//	illegal     – a documented-illegal feature is present: several call types on
//	              one method ("these cannot be combined"), async without
//	              quorumcall, client stream without multicast, server stream
//	              without correctable, correctable with a client stream, a
//	              message named Configuration/Manager/Node/QuorumSpec in a file
//	              that has methods, two services with methods in one file;
//	unspecified – no illegal feature, but something the documentation does not
//	              cover: an option in an "N/A" cell, the undocumented gorums.rpc
//	              option, an option written out as "= false", a custom return type
//	              that is not another message of
//	              the output type's package, client stream + multicast, hostile
//	              identifier spellings, empty services / no methods;
//	legal       – everything else: every method is a row of the option matrix
//	              over file-local, google.protobuf.Empty or imported messages,
//	              one service, ordinary names.

import (
	"fmt"
	"regexp"
	"sort"
	"strings"
)

// Feature is one suspicious property of a definition.
type Feature struct {
	Key     string `json:"key"`
	Illegal bool   `json:"illegal,omitempty"`
	Hostile bool   `json:"hostile,omitempty"` // an identifier from a hostile pool
	aspect  string
	svc     int
	meth    int
	msg     int
}

func (f Feature) sameSpot(g Feature) bool {
	return f.aspect == g.aspect && f.svc == g.svc && f.meth == g.meth && f.msg == g.msg
}

// Analysis is what Analyze derives from a definition.
type Analysis struct {
	Label      string    `json:"label"` // legal | illegal | unspecified
	Features   []Feature `json:"features,omitempty"`
	CallTypes  []string  `json:"call_types,omitempty"` // sorted set of call types present
	Options    []string  `json:"options,omitempty"`    // sorted set of advanced options / stream flags present
	Rows       []string  `json:"rows,omitempty"`       // one descriptor per method
	Methods    int       `json:"methods"`
	Imported   bool      `json:"imported,omitempty"` // a method uses an imported message type
	Hostile    bool      `json:"hostile,omitempty"`
	NonTrivial bool      `json:"nontrivial,omitempty"`
	Invalid    string    `json:"invalid,omitempty"` // the definition is not a valid proto file (harness bug)
	// Twins: two methods with a quorum function have reply (or custom return)
	// types of the same Go base name in different packages. Documented-legal
	// (imported types, any names), recorded because the templates name their
	// data types by base name only.
	Twins bool `json:"twins,omitempty"`
}

// FeatureKeys returns the keys of the features, in order, without repeats.
func (a Analysis) FeatureKeys() []string {
	var out []string
	seen := map[string]bool{}
	for _, f := range a.Features {
		if !seen[f.Key] {
			seen[f.Key] = true
			out = append(out, f.Key)
		}
	}
	return out
}

var identRE = regexp.MustCompile(`^[A-Za-z_][A-Za-z0-9_]*$`)

var (
	keywordLike     = map[string]bool{}
	staticGoNames   = map[string]bool{}
	zorumsMethodSet = map[string]bool{"QuorumCall": true, "Multicast": true, "Unicast": true, "Correctable": true, "CorrectableStream": true, "GRPCCall": true}
	reservedSet     = map[string]bool{}
)

func init() {
	for _, k := range []string{
		"break", "case", "chan", "const", "continue", "default", "defer", "else", "fallthrough", "for", "func", "go", "goto",
		"if", "import", "interface", "map", "package", "range", "return", "select", "struct", "switch", "type", "var",
		"any", "bool", "byte", "comparable", "complex64", "complex128", "error", "float32", "float64", "int", "int8", "int16",
		"int32", "int64", "rune", "string", "uint", "uint8", "uint16", "uint32", "uint64", "uintptr", "true", "false", "iota",
		"nil", "append", "cap", "clear", "close", "complex", "copy", "delete", "imag", "len", "make", "max", "min", "new",
		"panic", "print", "println", "real", "recover", "init", "main",
	} {
		keywordLike[k] = true
	}
	for _, n := range staticMethodNames {
		staticGoNames[GoCamelCase(n)] = true
	}
	for _, n := range staticTypeNames {
		staticGoNames[GoCamelCase(n)] = true
	}
	for _, n := range reservedTypeNames {
		staticGoNames[n] = true
		reservedSet[n] = true
	}
}

// NameClass classifies an identifier spelling for a role ("message",
// "service", "method"): "" means ordinary, anything else is the value used in
// the feature key (the name itself for pool names, a pattern such as AsyncX for
// derived names).
func NameClass(role, name string) string {
	if !identRE.MatchString(name) {
		return "invalid"
	}
	if role == "method" && zorumsMethodSet[name] {
		return ""
	}
	gn := GoCamelCase(name)
	if staticGoNames[gn] {
		// keyed by the Go identifier the generators derive: nodes, Nodes and
		// _nodes collide with the same generated identifier
		return gn
	}
	if name[0] == '_' || keywordLike[strings.ToLower(name)] {
		return name
	}
	if role == "method" {
		if strings.HasSuffix(name, "QF") {
			return "XQF"
		}
		return ""
	}
	for _, p := range []string{"CorrectableStream", "Correctable", "Async", "internal", "Internal"} {
		if strings.HasPrefix(name, p) || strings.HasPrefix(gn, p) {
			return p + "X"
		}
	}
	if strings.HasPrefix(gn, "Register") && strings.HasSuffix(gn, "Server") {
		return "RegisterXServer"
	}
	if strings.HasSuffix(gn, "Server") {
		return "XServer"
	}
	return ""
}

func packageClass(pkg string) string {
	if pkg == "" {
		return "(none)"
	}
	for _, c := range strings.Split(pkg, ".") {
		if c == "" || NameClass("package", c) != "" {
			return pkg
		}
	}
	return ""
}

// typeKind resolves a type reference of a method: "local", "empty", "dep" or
// "" (unknown) and the bare message name.
func typeKind(d *Def, ref string) (string, string) {
	if !strings.HasPrefix(ref, ".") {
		for _, m := range d.File.Messages {
			if m.Name == ref {
				return "local", ref
			}
		}
		return "", ref
	}
	if ref == EmptyType {
		return "empty", "Empty"
	}
	if d.Dep != nil {
		p := "." + d.Dep.Package + "."
		if d.Dep.Package == "" {
			p = "."
		}
		if strings.HasPrefix(ref, p) {
			n := ref[len(p):]
			for _, m := range d.Dep.Messages {
				if m.Name == n {
					return "dep", n
				}
			}
		}
	}
	return "", ref
}

// CallTypesOf lists the call-type options set on the method (sorted; the
// explicit gorums.rpc option is listed as "rpc").
func CallTypesOf(m Method) []string {
	var cts []string
	if m.Correctable {
		cts = append(cts, "correctable")
	}
	if m.Multicast {
		cts = append(cts, "multicast")
	}
	if m.Quorumcall {
		cts = append(cts, "quorumcall")
	}
	if m.RPC {
		cts = append(cts, "rpc")
	}
	if m.Unicast {
		cts = append(cts, "unicast")
	}
	return cts
}

// EffectiveCallType is the call type of a method with at most one call-type
// option (gorums.rpc not counted): rpc, unicast, multicast, quorumcall,
// correctable; "" if several are set.
func EffectiveCallType(m Method) string {
	n := 0
	ct := "rpc"
	for _, c := range CallTypesOf(m) {
		if c != "rpc" {
			n++
			ct = c
		}
	}
	if n > 1 {
		return ""
	}
	return ct
}

// RowKey describes the option row of a method (used in keys and classes).
func RowKey(d *Def, m Method) string {
	ct := EffectiveCallType(m)
	if ct == "" {
		ct = strings.Join(CallTypesOf(m), "+")
	}
	s := ct
	if m.Async {
		s += "+async"
	}
	if m.PerNodeArg {
		s += "+per_node_arg"
	}
	if m.CustomReturn != "" {
		s += "+custom_return_type"
	}
	if m.ClientStream {
		s += "+client_stream"
	}
	if m.ServerStream {
		s += "+stream"
	}
	if k, _ := typeKind(d, m.In); k != "local" {
		s += "/in=" + k
	}
	if k, _ := typeKind(d, m.Out); k != "local" {
		s += "/out=" + k
	}
	return s
}

// MissingKinds lists the call-type kinds (those dev=true writes a file for)
// that no method of the definition has.
func MissingKinds(d Def) []string {
	have := map[string]bool{}
	for _, s := range d.File.Services {
		for _, m := range s.Methods {
			switch eff := EffectiveCallType(m); {
			case eff == "quorumcall" && m.Async:
				have["async"] = true
			case eff == "correctable" && m.ServerStream:
				have["correctablestream"] = true
				have["correctable"] = true
			case eff != "":
				have[eff] = true
			}
		}
	}
	var missing []string
	for _, k := range []string{"rpc", "unicast", "multicast", "quorumcall", "async", "correctable"} {
		if !have[k] {
			missing = append(missing, k)
		}
	}
	return missing
}

// Analyze computes label and features of a definition.
func Analyze(d Def) Analysis {
	a := Analysis{}
	f := &d.File
	add := func(ft Feature) { a.Features = append(a.Features, ft) }

	totalMethods, svcWithMethods := 0, 0
	for _, s := range f.Services {
		totalMethods += len(s.Methods)
		if len(s.Methods) > 0 {
			svcWithMethods++
		}
	}
	a.Methods = totalMethods

	// --- validity (the generator never produces these; replayed files might)
	protoNames := map[string]bool{}
	for _, m := range f.Messages {
		if protoNames[m.Name] {
			a.Invalid = "duplicate proto name " + m.Name
		}
		protoNames[m.Name] = true
		if !identRE.MatchString(m.Name) {
			a.Invalid = "bad identifier " + m.Name
		}
	}
	for _, s := range f.Services {
		if protoNames[s.Name] {
			a.Invalid = "duplicate proto name " + s.Name
		}
		protoNames[s.Name] = true
		if !identRE.MatchString(s.Name) {
			a.Invalid = "bad identifier " + s.Name
		}
		mn := map[string]bool{}
		for _, m := range s.Methods {
			if mn[m.Name] {
				a.Invalid = "duplicate method name " + m.Name
			}
			mn[m.Name] = true
			if !identRE.MatchString(m.Name) {
				a.Invalid = "bad identifier " + m.Name
			}
			if k, _ := typeKind(&d, m.In); k == "" {
				a.Invalid = "unknown input type " + m.In
			}
			if k, _ := typeKind(&d, m.Out); k == "" {
				a.Invalid = "unknown output type " + m.Out
			}
		}
	}
	if d.Dep != nil {
		dn := map[string]bool{}
		for _, m := range d.Dep.Messages {
			if dn[m.Name] || (d.Dep.Package == f.Package && protoNames[m.Name]) {
				a.Invalid = "duplicate proto name " + m.Name
			}
			dn[m.Name] = true
		}
		if d.Dep.Name == f.Name {
			a.Invalid = "file imports itself"
		}
	}

	if strings.Contains(d.Param, "dev=true") {
		if mk := MissingKinds(d); len(mk) > 0 {
			// dev mode splits the output by call type and is only used on zorums.proto
			a.Invalid = "dev=true is only defined for zorums-like definitions; no method of kind " + strings.Join(mk, ",")
		}
	}

	// --- definition-level features
	switch {
	case svcWithMethods >= 2:
		add(Feature{Key: "two-services", Illegal: true, aspect: "services", svc: -1, meth: -1, msg: -1})
	case totalMethods == 0:
		add(Feature{Key: "no-methods", aspect: "nomethods", svc: -1, meth: -1, msg: -1})
	case len(f.Services) >= 2:
		add(Feature{Key: "empty-service", aspect: "services", svc: -1, meth: -1, msg: -1})
	}
	if d.DepBase != "" {
		add(Feature{Key: "dep-go-package=" + d.DepBase, Hostile: true, aspect: "depbase", svc: -1, meth: -1, msg: -1})
	}
	if c := packageClass(f.Package); c != "" {
		add(Feature{Key: "package=" + c, Hostile: true, aspect: "package", svc: -1, meth: -1, msg: -1})
	}

	// --- type-level names: messages and services share the Go namespace
	goTypes := map[string]bool{}
	for i, m := range f.Messages {
		gn := GoCamelCase(m.Name)
		switch c := NameClass("message", m.Name); {
		case reservedSet[m.Name] && totalMethods > 0:
			add(Feature{Key: "reserved-message=" + m.Name, Illegal: true, Hostile: true, aspect: "msgname", svc: -1, meth: -1, msg: i})
		case goTypes[gn]:
			add(Feature{Key: "message-name=dup-go-name", Hostile: true, aspect: "msgname", svc: -1, meth: -1, msg: i})
		case c != "":
			add(Feature{Key: "message-name=" + c, Hostile: true, aspect: "msgname", svc: -1, meth: -1, msg: i})
		}
		goTypes[gn] = true
	}
	for i, s := range f.Services {
		gn := GoCamelCase(s.Name)
		switch c := NameClass("service", s.Name); {
		case goTypes[gn]:
			// a service whose Go name equals a message's (or another service's) Go name: this
			// collision is the root cause whatever else the spelling looks like
			add(Feature{Key: "service-name=dup-go-name", Hostile: true, aspect: "svcname", svc: i, meth: -1, msg: -1})
		case c != "":
			add(Feature{Key: "service-name=" + c, Hostile: true, aspect: "svcname", svc: i, meth: -1, msg: -1})
		}
		goTypes[gn] = true
	}

	// --- methods
	ctSet := map[string]bool{}
	optSet := map[string]bool{}
	goMeths := map[string]bool{}
	distinctTypes := map[string]bool{}
	for si, s := range f.Services {
		for mi, m := range s.Methods {
			at := func(key, aspect string, illegal bool) {
				add(Feature{Key: key, Illegal: illegal, aspect: aspect, svc: si, meth: mi, msg: -1})
			}
			a.Rows = append(a.Rows, RowKey(&d, m))
			all := CallTypesOf(m)
			var real []string
			for _, c := range all {
				if c != "rpc" {
					real = append(real, c)
				}
			}
			for _, c := range real {
				ctSet[c] = true
			}
			if len(real) == 0 {
				ctSet["rpc"] = true
			}
			switch {
			case len(real) >= 2:
				at("calltypes="+strings.Join(all, "+"), "calltypes", true)
			case m.RPC && len(real) == 1:
				at("calltypes="+strings.Join(all, "+"), "calltypes", false)
			case m.RPC:
				at("rpc-option", "rpcopt", false)
			}
			if len(m.False) > 0 {
				// an option written out as "= false": the documentation only ever shows "= true"
				fs := append([]string(nil), m.False...)
				sort.Strings(fs)
				at("explicit-false="+strings.Join(fs, "+"), "falseopt", false)
			}
			// the documented stream/option rules, stated on presence of options. An option that is
			// written out as "= false" is present and not set at the same time; what the required
			// option means then is not documented, so the rule yields no "illegal" (the definition
			// carries the feature explicit-false and is unspecified)
			writtenFalse := func(opt string) bool {
				for _, f := range m.False {
					if f == opt {
						return true
					}
				}
				return false
			}
			if m.Async && !m.Quorumcall {
				at("async-without-quorumcall", "async", !writtenFalse("quorumcall"))
			}
			if m.ClientStream && !m.Multicast {
				at("client-stream-without-multicast", "clientstream", !writtenFalse("multicast"))
			}
			if m.ServerStream && !m.Correctable {
				at("server-stream-without-correctable", "serverstream", !writtenFalse("correctable"))
			}
			if m.Correctable && m.ClientStream {
				at("correctable-client-stream", "clientstream", true)
			}
			if m.Async {
				optSet["async"] = true
			}
			if m.PerNodeArg {
				optSet["per_node_arg"] = true
			}
			if m.CustomReturn != "" {
				optSet["custom_return_type"] = true
			}
			if m.ServerStream {
				optSet["stream"] = true
			}
			if m.ClientStream {
				optSet["client_stream"] = true
			}
			ik, _ := typeKind(&d, m.In)
			ok, oname := typeKind(&d, m.Out)
			if ik == "empty" || ik == "dep" || ok == "empty" || ok == "dep" {
				a.Imported = true
			}
			distinctTypes[EffectiveCallType(m)] = true
			if eff := EffectiveCallType(m); eff != "" {
				oneway := eff == "unicast" || eff == "multicast"
				if m.PerNodeArg && (eff == "rpc" || eff == "unicast") {
					at("per_node_arg@"+eff, "pernode", false)
				}
				if m.CustomReturn != "" {
					// the option names a Go type; the plugin resolves it in the
					// output type's Go package
					inPkg := false
					switch ok {
					case "local":
						for _, lm := range f.Messages {
							if GoCamelCase(lm.Name) == m.CustomReturn {
								inPkg = true
							}
						}
					case "dep":
						for _, dm := range d.Dep.Messages {
							if GoCamelCase(dm.Name) == m.CustomReturn {
								inPkg = true
							}
						}
					}
					switch {
					case ok == "empty":
						at("custom_return_type@imported-out", "custom", false)
					case !inPkg:
						// a hand-written type the user would have to supply: nothing
						// the harness can compile
						a.Invalid = "custom_return_type " + m.CustomReturn + " names no generated message of the output type's package"
					case eff == "rpc" || oneway:
						at("custom_return_type@"+eff, "custom", false)
					case m.CustomReturn == GoCamelCase(oname):
						at("custom_return_type=out", "custom", false)
					}
				}
				if m.ClientStream && m.Multicast {
					at("client-stream@multicast", "clientstream", false)
				}
			}
			gn := GoCamelCase(m.Name)
			switch c := NameClass("method", m.Name); {
			case goMeths[gn]:
				// the collision with the other method is the root cause whatever else the spelling looks like
				add(Feature{Key: "method-name=dup-go-name", Hostile: true, aspect: "methname", svc: si, meth: mi, msg: -1})
			case c != "":
				add(Feature{Key: "method-name=" + c, Hostile: true, aspect: "methname", svc: si, meth: mi, msg: -1})
			}
			goMeths[gn] = true
		}
	}
	// twins
	basePkg := map[string]string{}
	for _, s := range f.Services {
		for _, m := range s.Methods {
			if !m.Quorumcall && !m.Correctable {
				continue
			}
			kind, name := typeKind(&d, m.Out)
			for _, n := range []string{GoCamelCase(name), m.CustomReturn} {
				if n == "" {
					continue
				}
				if p, ok := basePkg[n]; ok && p != kind {
					a.Twins = true
				}
				basePkg[n] = kind
			}
		}
	}
	for c := range ctSet {
		a.CallTypes = append(a.CallTypes, c)
	}
	sort.Strings(a.CallTypes)
	for o := range optSet {
		a.Options = append(a.Options, o)
	}
	sort.Strings(a.Options)

	a.Label = "legal"
	for _, ft := range a.Features {
		if ft.Hostile {
			a.Hostile = true
		}
		if ft.Illegal {
			a.Label = "illegal"
		} else if a.Label == "legal" {
			a.Label = "unspecified"
		}
	}
	a.NonTrivial = len(distinctTypes) >= 2 || len(a.Options) > 0 || a.Imported || a.Hostile
	return a
}

// ---------------------------------------------------------------- variants

func cloneDef(d Def) Def {
	c := d
	c.File.Imports = append([]string(nil), d.File.Imports...)
	c.File.Messages = append([]Message(nil), d.File.Messages...)
	c.File.Services = nil
	for _, s := range d.File.Services {
		s.Methods = append([]Method(nil), s.Methods...)
		c.File.Services = append(c.File.Services, s)
	}
	if d.Dep != nil {
		dep := *d.Dep
		dep.Messages = append([]Message(nil), d.Dep.Messages...)
		c.Dep = &dep
	}
	return c
}

func freshName(d *Def, prefix string) string {
	for i := 0; ; i++ {
		n := fmt.Sprintf("%s%d", prefix, i)
		taken := protoNameTaken(d, n)
		for _, s := range d.File.Services {
			for _, m := range s.Methods {
				if m.Name == n {
					taken = true
				}
			}
		}
		if !taken {
			return n
		}
	}
}

// fix removes one feature from the definition (in place).
func fix(d *Def, ft Feature, keepSvc int) {
	f := &d.File
	var m *Method
	if ft.svc >= 0 && ft.meth >= 0 {
		m = &f.Services[ft.svc].Methods[ft.meth]
	}
	switch ft.aspect {
	case "calltypes":
		// keep one call type: quorumcall > correctable > multicast > unicast
		m.RPC = false
		switch {
		case m.Quorumcall:
			m.Correctable, m.Multicast, m.Unicast = false, false, false
		case m.Correctable:
			m.Multicast, m.Unicast = false, false
		case m.Multicast:
			m.Unicast = false
		}
	case "rpcopt":
		m.RPC = false
	case "falseopt":
		m.False = nil
	case "depbase":
		d.DepBase = ""
	case "async":
		m.Async = false
	case "pernode":
		m.PerNodeArg = false
	case "custom":
		m.CustomReturn = ""
	case "clientstream":
		m.ClientStream = false
	case "serverstream":
		m.ServerStream = false
	case "methname":
		m.Name = freshName(d, "Zm")
	case "msgname":
		renameMessage(d, ft.msg, freshName(d, "Zt"))
	case "svcname":
		f.Services[ft.svc].Name = freshName(d, "Zs")
	case "package":
		f.Package = "zpkg"
		if d.Dep != nil && d.Dep.Package == "zpkg" {
			f.Package = "zpkg2"
		}
	case "services":
		// keep one service: the one the kept feature lives in, else the first with methods
		keep := keepSvc
		if keep < 0 || keep >= len(f.Services) {
			keep = 0
			for i, s := range f.Services {
				if len(s.Methods) > 0 {
					keep = i
					break
				}
			}
		}
		f.Services = []Service{f.Services[keep]}
	case "nomethods":
		if len(f.Services) == 0 {
			f.Services = append(f.Services, Service{Name: freshName(d, "Zs")})
		}
		if len(f.Messages) == 0 {
			f.Messages = append(f.Messages, Message{Name: freshName(d, "Zt"), Fields: stdFields()})
		}
		f.Services[0].Methods = append(f.Services[0].Methods, Method{Name: freshName(d, "Zm"), In: f.Messages[0].Name, Out: f.Messages[0].Name, Quorumcall: true})
	}
}

// Neutralise returns the variant of d that keeps the features with key
// keepKey and legalises every other feature (as far as they can be
// separated). The plugin parameter is kept.
func Neutralise(d Def, keepKey string) Def {
	v := cloneDef(d)
	for iter := 0; iter < 200; iter++ {
		a := Analyze(v)
		var keep []Feature
		for _, ft := range a.Features {
			if ft.Key == keepKey {
				keep = append(keep, ft)
			}
		}
		keepSvc := -1
		if len(keep) > 0 {
			keepSvc = keep[0].svc
		}
		var target *Feature
	next:
		for i, ft := range a.Features {
			if ft.Key == keepKey {
				continue
			}
			for _, k := range keep {
				if ft.sameSpot(k) {
					continue next // cannot be separated from the kept feature
				}
			}
			target = &a.Features[i]
			break
		}
		if target == nil {
			break
		}
		before := DefJSON(v)
		fix(&v, *target, keepSvc)
		if DefJSON(v) == before {
			break
		}
	}
	return v
}

// OnlyMethod returns the variant of d that has only method mi of service si.
func OnlyMethod(d Def, si, mi int) Def {
	v := cloneDef(d)
	s := v.File.Services[si]
	s.Methods = []Method{s.Methods[mi]}
	v.File.Services = []Service{s}
	return v
}

// CheckPools verifies the generator's assumptions about its own name pools:
// ordinary names are ordinary by NameClass and have pairwise distinct Go names
// per pool; hostile pool names are valid proto identifiers.
func CheckPools() error {
	for role, pool := range map[string][]string{"message": ordTypeNames, "service": ordServiceNames, "method": ordMethodNames} {
		seen := map[string]string{}
		for _, n := range pool {
			if c := NameClass(role, n); c != "" {
				return fmt.Errorf("ordinary %s name %q is classified %q", role, n, c)
			}
			if o, ok := seen[GoCamelCase(n)]; ok {
				return fmt.Errorf("ordinary %s names %q and %q share the Go name %s", role, o, n, GoCamelCase(n))
			}
			seen[GoCamelCase(n)] = n
		}
	}
	// messages and services share the Go namespace of the package
	seen := map[string]bool{}
	for _, n := range append(append([]string{}, ordTypeNames...), ordServiceNames...) {
		if seen[GoCamelCase(n)] {
			return fmt.Errorf("ordinary type/service pools share the Go name %s", GoCamelCase(n))
		}
		seen[GoCamelCase(n)] = true
	}
	for _, p := range append(append([]string{}, ordPackages...), ordDepPackages...) {
		if c := packageClass(p); c != "" {
			return fmt.Errorf("ordinary package %q is classified %q", p, c)
		}
	}
	for _, pool := range [][]string{keywordNames, staticMethodNames, staticTypeNames, reservedTypeNames} {
		for _, n := range pool {
			if !identRE.MatchString(n) {
				return fmt.Errorf("pool name %q is not a proto identifier", n)
			}
		}
	}
	for _, n := range keywordNames {
		if NameClass("method", n) == "" || NameClass("message", n) == "" {
			return fmt.Errorf("keyword pool name %q is classified ordinary", n)
		}
	}
	for _, n := range staticMethodNames {
		if NameClass("method", n) == "" {
			return fmt.Errorf("static method name %q is classified ordinary", n)
		}
	}
	for _, n := range append(append([]string{}, staticTypeNames...), reservedTypeNames...) {
		if NameClass("message", n) == "" {
			return fmt.Errorf("static type name %q is classified ordinary", n)
		}
	}
	return nil
}
