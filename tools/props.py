"""Per-property configuration of the driver."""

ASSUMPTIONS = {
    "*": [
        "the Go toolchain, runtime and standard library, pgregory.net/rapid, grpc-go and protobuf-go are trusted",
        "search is sampling: absence of a counterexample in the generated cases is not a proof of absence",
    ],
    "C19": ["nodes are built through an injected constructor (overlay) that sets id, address and last error directly"],
}

SCEN = {"overlay": "access", "puppet": True, "engine": "scen", "replay_repeat": 5}

PROPS = {
    "C01": dict(SCEN, pkg="./props/c01", level="exploration",
                quick={"checks": 1500, "shards": 4, "timeout": 600},
                thorough={"checks": 12000, "shards": 16, "timeout": 2400},
                technique="property-based testing (rapid): generated reply/error/silence histories with controlled arrival order; invariants over the recorded quorum-function invocations",
                level_text="generated histories over an in-process cluster with freshly generated stubs; the recording quorum function and stamped replies make every clause of the property an executable invariant; arrival orders are controlled, interleavings with background calls are sampled"),
    "C02": dict(SCEN, pkg="./props/c02", level="exploration",
                quick={"checks": 1500, "shards": 4, "timeout": 600},
                thorough={"checks": 12000, "shards": 16, "timeout": 2400},
                technique="property-based testing (rapid): generated histories with a context end at every position, outcome compared with a reference model; bounded-return with a confirmed-hang rule",
                level_text="reference-model comparison of the outcome of generated histories (quorum / exhaustion / context end, including zero and one targeted node); hangs are confirmed by two goroutine dumps 10 s apart"),
    "C06": dict(SCEN, pkg="./props/c06", level="exploration",
                quick={"checks": 800, "shards": 4, "timeout": 600},
                thorough={"checks": 8000, "shards": 16, "timeout": 2400},
                technique="property-based testing (rapid): generated per-node tables and call kinds; delivery multiset compared with f(request, id); bounded return of one-way calls behind blocked handlers / blocked dial",
                level_text="generated per-node functions (skip none/some/all, distinct tags and payloads) over all call kinds that accept them plus plain calls, multicast and unicast; deliveries recorded at the servers are compared with the model after a fence; one-way calls are made while every handler (and optionally the dial) is blocked"),
    "C07": dict(SCEN, pkg="./props/c07", level="fault_enumeration",
                quick={"checks": 1200, "shards": 4, "timeout": 600},
                thorough={"checks": 10000, "shards": 16, "timeout": 2400},
                technique="property-based fault injection (rapid): generated failing subsets x failure kinds x strike positions, error-list reference model",
                level_text="generated fault plans (never started, stopped before/while/after the handler answered, handler errors with all status codes, reply+error) over 1-7 nodes; the error text is compared with a model of who failed how; strike positions are controlled through handler gates"),
    "C11": dict(SCEN, pkg="./props/c11", level="exploration",
                quick={"checks": 1000, "shards": 4, "timeout": 600},
                thorough={"checks": 10000, "shards": 16, "timeout": 2400},
                technique="model-based property testing (rapid): generated level scripts, reply/error sequences and observation plans compared with a correctable reference model after every step",
                level_text="a reference model of the correctable (published value/level, completion, watchers) is driven by the recorded quorum-function invocations and compared with Get / typed Get / Done / Watch after every generated step; arrival order is controlled through gates"),
    "C13": {
        "pkg": "./props/c13", "overlay": "access", "puppet": True, "level": "exploration", "engine": "pure",
        "quick": {"checks": 6000, "shards": 4, "timeout": 600},
        "thorough": {"checks": 60000, "shards": 16, "timeout": 2400},
        "technique": "property-based testing (rapid) with a reflective message generator (round-trip oracle) and structure-aware frame mutation (never-panics oracle), plus raw frames against a live server; native go fuzzing of the decoder in the thorough tier",
        "level_text": "round-trip over every registered method in both directions with reflectively generated payloads/metadata; decoder robustness over structure-aware mutations incl. the names of every non-method registry entity; end-to-end over a live server; sampling, not proof",
    },
    "C14": {
        "pkg": "./props/c14", "overlay": "access", "puppet": True, "level": "exploration", "engine": "pure",
        "quick": {"checks": 20000, "shards": 2, "timeout": 600},
        "thorough": {"checks": 300000, "shards": 16, "timeout": 2400},
        "technique": "model-based property testing (rapid): generated sequences of configuration-building operations compared with a set/pool reference model after every step",
        "level_text": "stateful search over small scopes (9 addresses incl. two FNV collision pairs, ids 1-6): every result, every earlier configuration and the manager's pool are compared with the reference model after each operation, through the generated and the raw API; sampling, not proof",
    },
    "C19": {
        "pkg": "./props/c19", "overlay": "access", "level": "exploration", "engine": "pure",
        "technique": "property-based testing (rapid): generated node slices x key sequences against a lexicographic reference model plus strict-weak-order laws",
        "level_text": "dense random search over small scopes (ids, ports and error flags drawn from small pools so that ties dominate): every provided key is checked against its documented meaning and the four strict-weak-order laws on all triples, and every sort result is checked to be an ordered permutation under the model keys; sampling, not proof",
        "quick": {"checks": 20000, "shards": 1, "timeout": 300},
        "thorough": {"checks": 200000, "shards": 16, "timeout": 1200},
    },
}
