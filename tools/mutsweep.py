#!/usr/bin/env python3
"""tools/mutsweep.py - automatic mutation sweep (sensitivity measurement, never part of a registered check).

usage: mutsweep.py list                         -> prints the number of candidate mutants per file
       mutsweep.py run <worker> <nworkers> <N> <seed> [file ...]
A worker owns one scratch worktree /tmp/wtmut<worker> of /repo's HEAD and one frozen copy of /verif
(/tmp/vcopy-wtmut<worker>, made by tools/altcheck.sh). For every sampled mutant it
  1. applies the textual mutation, `go build ./...` (not compiling -> discarded),
  2. runs the existing suite (killed there -> 'suite', not interesting: ordinary tests expose it),
  3. runs the quick checks, the ones that own the mutated file first, until one reports a VIOLATION,
and appends one JSON line to /tmp/mutsweep/results-<worker>.jsonl. /repo and /verif/evidence are never touched.
Operators: negate an if condition, delete a call/assignment/defer/go statement, swap a relational operator,
swap && and ||, replace a small integer constant (0<->1)."""
import json, os, random, re, subprocess, sys

REPO = "/repo"
FILES = ["channel.go", "quorumcall.go", "async.go", "correctable.go", "multicast.go", "unicast.go", "rpc.go",
         "server.go", "encoding.go", "config.go", "config_opts.go", "mgr.go", "node.go", "opts.go", "errors.go",
         "callopts.go", "cmd/protoc-gen-gorums/gengorums/gorums.go", "cmd/protoc-gen-gorums/gengorums/gorums_func_map.go"]
ALL = ["C%02d" % i for i in range(1, 20)]
OWNERS = {
    "channel.go": ["C09", "C07", "C05", "C18", "C12", "C08", "C03", "C06", "C10", "C15"],
    "quorumcall.go": ["C01", "C02", "C06", "C07", "C18", "C08"],
    "async.go": ["C02", "C01", "C06", "C18", "C08"],
    "correctable.go": ["C11", "C08", "C18", "C06"],
    "multicast.go": ["C06", "C03", "C08"],
    "unicast.go": ["C06", "C03", "C08"],
    "rpc.go": ["C05", "C07", "C08", "C03", "C18"],
    "server.go": ["C04", "C03", "C13", "C07", "C10", "C15"],
    "encoding.go": ["C13", "C07", "C17"],
    "config.go": ["C14", "C15"], "config_opts.go": ["C14", "C15"],
    "mgr.go": ["C14", "C12", "C10", "C15"], "node.go": ["C19", "C14", "C10", "C12", "C15"],
    "opts.go": ["C10", "C12", "C06"], "errors.go": ["C02", "C07"], "callopts.go": ["C06", "C03"],
    "cmd/protoc-gen-gorums/gengorums/gorums.go": ["C16", "C17"],
    "cmd/protoc-gen-gorums/gengorums/gorums_func_map.go": ["C16", "C17"],
}
ENV = dict(os.environ, GOFLAGS="-mod=mod", GOPROXY="off", GOSUMDB="off", GOTOOLCHAIN="local")
SKIPLINE = re.compile(r"log\.|Printf|Println|logger|//\s*nolint|panic\(")


def candidates(path):
    """-> list of (lineno, operator, new_line) for the file's text"""
    out = []
    lines = open(os.path.join(REPO, path)).read().split("\n")
    infunc = False
    for i, l in enumerate(lines):
        s = l.strip()
        if l.startswith("func "):
            infunc = True
        if not infunc or not s or s.startswith("//") or SKIPLINE.search(s):
            continue
        ind = l[:len(l) - len(l.lstrip())]
        m = re.match(r"^(\s*(?:\} else )?if )(.*) \{$", l)
        if m:
            head, cond = m.group(1), m.group(2)
            if ";" in cond:
                init, c = cond.rsplit(";", 1)
                out.append((i, "negate-if", "%s%s; !(%s) {" % (head, init, c.strip())))
            else:
                out.append((i, "negate-if", "%s!(%s) {" % (head, cond)))
        if re.match(r"^(defer |go )?[\w\.\[\]]+\(.*\)$", s) and not s.startswith(("return", "func", "if ", "for ", "switch ")):
            out.append((i, "delete-stmt", ind + "// mutated: deleted"))
        if re.match(r"^[\w\.\[\]]+(\[[^\]]+\])? = [^=].*$", s) and "func(" not in s and not s.endswith("{"):
            out.append((i, "delete-assign", ind + "// mutated: deleted"))
        if re.match(r"^(delete|close)\(", s):
            pass  # covered by delete-stmt
        for a, b in ((" < ", " <= "), (" <= ", " < "), (" > ", " >= "), (" >= ", " > "), (" == ", " != "), (" != ", " == "),
                     (" && ", " || "), (" || ", " && ")):
            if a in l and "for " not in s[:4] and '"' not in l:
                out.append((i, "swap" + a.strip(), l.replace(a, b, 1)))
        m = re.search(r"([=<>(,+\- ])([01])([),;\s]|$)", l)
        if m and '"' not in l and "iota" not in l and not s.startswith(("case", "const")):
            k = m.start(2)
            out.append((i, "const", l[:k] + ("1" if l[k] == "0" else "0") + l[k + 1:]))
        if s == "continue" or s == "break":
            out.append((i, "delete-" + s, ind + "// mutated: deleted"))
    return lines, out


def sh(cmd, cwd, timeout):
    try:
        r = subprocess.run(cmd, cwd=cwd, env=ENV, capture_output=True, text=True, timeout=timeout, shell=isinstance(cmd, str))
        return r.returncode, (r.stdout + r.stderr)
    except subprocess.TimeoutExpired as e:
        return 124, "timeout"


def main():
    if sys.argv[1] == "list":
        tot = 0
        for f in FILES:
            _, c = candidates(f)
            tot += len(c)
            print("%4d %s" % (len(c), f))
        print(tot)
        return
    worker, nworkers, n, seed = int(sys.argv[2]), int(sys.argv[3]), int(sys.argv[4]), int(sys.argv[5])
    files = sys.argv[6:] or FILES
    allc = []
    for f in files:
        lines, c = candidates(f)
        allc += [(f, i, op, new) for (i, op, new) in c]
    random.Random(seed).shuffle(allc)
    allc = allc[:n]
    mine = [c for k, c in enumerate(allc) if k % nworkers == worker]
    wt = "/tmp/wtmut%d" % worker
    os.makedirs("/tmp/mutsweep", exist_ok=True)
    res = "/tmp/mutsweep/results-%d.jsonl" % worker
    if not os.path.isdir(wt):
        sh(["git", "-C", REPO, "worktree", "add", "--detach", wt, "HEAD"], "/", 60)
    first = True
    for (f, i, op, new) in mine:
        sh(["git", "checkout", "--", "."], wt, 60)
        p = os.path.join(wt, f)
        lines = open(p).read().split("\n")
        old = lines[i]
        lines[i] = new
        open(p, "w").write("\n".join(lines))
        rec = {"file": f, "line": i + 1, "op": op, "old": old.strip(), "new": new.strip()}
        rc, out = sh(["go", "build", "./..."], wt, 300)
        if rc != 0:
            rec["result"] = "no-compile"
        else:
            rc, out = sh("go test -vet=off -count=1 -timeout 240s . ./internal/leakcheck ./tests/... 2>&1 | grep -v 'no test files'", wt, 400)
            bad = [l for l in out.splitlines() if l.startswith(("FAIL", "--- FAIL", "panic:")) or "timeout" == l]
            if bad:
                rec["result"] = "suite"
                rec["suite"] = bad[:3]
            else:
                order = OWNERS.get(f, []) + [c for c in ALL if c not in OWNERS.get(f, [])]
                rec["checks"] = {}
                rec["result"] = "survived"
                for c in order:
                    env = dict(ENV, ALT_SRC=os.environ.get("ALT_SRC", "/verif"))
                    if first:
                        env["ALT_REFRESH"] = "1"
                        first = False
                    try:
                        r = subprocess.run(["/verif/tools/altcheck.sh", wt, c, "quick"], env=env, capture_output=True, text=True, timeout=1500)
                        crc, cout = r.returncode, r.stdout + r.stderr
                    except subprocess.TimeoutExpired:
                        crc, cout = 124, ""
                    key = [l for l in cout.splitlines() if "violation key" in l][:1]
                    rec["checks"][c] = crc
                    if crc == 1:
                        rec["result"] = "caught"
                        rec["by"] = c
                        rec["key"] = key[0][:200] if key else ""
                        break
        open(res, "a").write(json.dumps(rec) + "\n")
        print(json.dumps(rec)[:300], flush=True)
    sh(["git", "checkout", "--", "."], wt, 60)


main()
