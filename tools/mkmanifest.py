#!/usr/bin/env python3
"""Writes /verif/MANIFEST.json from tools/props.py (keeps the manifest valid at all times)."""
import json, os, sys
sys.path.insert(0, os.path.dirname(os.path.abspath(__file__)))
from props import PROPS, ASSUMPTIONS
VERIF = os.path.dirname(os.path.dirname(os.path.abspath(__file__)))
ALL = [json.loads(l)["id"] for l in open(os.path.join(VERIF, "properties.jsonl"))]
NA_REASON = {}
try:
    from props import NOT_APPLICABLE
    NA_REASON.update(NOT_APPLICABLE)
except ImportError:
    pass

checks = []
for pid in ALL:
    if pid not in PROPS or PROPS[pid].get("disabled"):
        continue
    c = PROPS[pid]
    checks.append({
        "property_id": pid,
        "quick_cmd": "./check %s quick" % pid,
        "thorough_cmd": "./check %s thorough" % pid,
        "evidence_file": "/verif/evidence/%s.json" % pid,
        "replay_cmd_template": "./check %s --replay {path}" % pid,
        "engine": c.get("engine", "pure"),
        "level_claimed": {"category": c.get("level", "exploration"), "text": c.get("level_text", ""),
                          "design_ref": c.get("design_ref", "DESIGN.md section 4, " + pid)},
        "level_note": c.get("level_note", "; ".join(ASSUMPTIONS.get("*", []) + ASSUMPTIONS.get(pid, []))),
        "technique": c.get("technique", "property-based testing (rapid) against an explicit oracle"),
    })
na = [{"property_id": pid, "reason": NA_REASON.get(pid, "check not built yet in this session; claimed once its engine exists (DESIGN.md section 9)")}
      for pid in ALL if pid not in PROPS or PROPS[pid].get("disabled")]
m = {
    "version": 1,
    "setup_cmd": "./setup.sh",
    "hooks": {
        "guard": "overlay (go build -overlay; no hook source lives in /repo)",
        "enable": "checks build /repo's working tree with `go test -c -overlay /verif/.work/overlay-{access,instr}.json`: access adds /verif/harness/inject/zz_verif_access.go.in (read-only accessors, a bare-node constructor and a tear-down helper that closes nodes Manager.Close did not see) to package gorums; instr additionally replaces the 11 runtime files by copies with `verifPoint(N); ` before every statement (harness/cmd/vinstr, regenerated from the working tree on every check) and adds zz_verif_sched.go.in; without the -overlay flag nothing of it exists",
        "baseline_off_cmd": "cd /repo && go test -vet=off -count=1 -timeout 25m ./...",
        "source_commits": [],
        "add_only": True,
    },
    "engines": [
        {"name": "pure", "path": "harness/props", "serves_properties": [p for p in ALL if p in PROPS and PROPS[p].get("engine", "pure") == "pure"],
         "kind_free_text": "rapid property tests calling the library in-process, reference-model / round-trip oracles"},
        {"name": "scen", "path": "harness/scen", "serves_properties": [p for p in ALL if p in PROPS and PROPS[p].get("engine") == "scen"],
         "kind_free_text": "generated scenarios over an in-process bufconn cluster of puppet servers with freshly generated stubs; history-invariant oracles"},
        {"name": "vgen", "path": "harness/cmd/vgen", "serves_properties": [p for p in ALL if p in PROPS and PROPS[p].get("engine") == "vgen"],
         "kind_free_text": "generated service definitions fed to the working tree's protoc plugin; compile / determinism / differential oracles"},
    ],
    "checks": checks,
    "not_applicable": na,
    "notes": "All checks are driven by tools/driver.py (./check). VERIF_SEED selects the rapid seeds of all shards. Exit 2 = inconclusive (never a violation). See DESIGN.md.",
}
json.dump(m, open(os.path.join(VERIF, "MANIFEST.json"), "w"), indent=1)
print("MANIFEST.json: %d checks, %d not_applicable" % (len(checks), len(na)))
