"""Extra steps a property can declare for a tier (tools/props.py: "extra": [...])."""
import base64, glob, json, os, re, shutil, time


def register(EXTRA, g):
    run, goenv, HARNESS, WORK, save_fail = g["run"], g["goenv"], g["HARNESS"], g["WORK"], g["save_fail"]

    def gofuzz(pid, cfg, extra, overlay, rundir, seed):
        """Bounded native go fuzzing of one target; a crasher becomes a replay file of the property's case type."""
        pkg, target, secs = extra["pkg"], extra["target"], int(extra.get("seconds", 60))
        pkgdir = os.path.join(HARNESS, pkg.lstrip("./"))
        corpus = os.path.join(pkgdir, "testdata", "fuzz", target)
        shutil.rmtree(corpus, ignore_errors=True)
        env = goenv()
        cmd = ["go", "test", "-overlay", overlay, "-vet=off", "-run", "^$", "-fuzz", "^%s$" % target,
               "-fuzztime", "%ds" % secs, "-timeout", "%ds" % (secs + 600), pkg]
        t0 = time.time()
        rc, out = run(cmd, cwd=HARNESS, env=env, timeout=secs + 900)
        open(os.path.join(rundir, "gofuzz.log"), "w").write(out)
        execs = 0
        for m in re.finditer(r"execs: (\d+)", out):
            execs = max(execs, int(m.group(1)))
        viol, inc = [], []
        crashers = sorted(glob.glob(os.path.join(corpus, "*")))
        pm = re.search(r"PANIC frame=([0-9a-f]*) response=(true|false) panic=(.*)", out)
        if pm:
            data = bytes.fromhex(pm.group(1))
            case = {"mode": "decode", "frame": base64.b64encode(data).decode(), "response": pm.group(2) == "true", "mutation": "native-fuzz"}
            obj = {"property": pid, "case": case, "verdict": {"ok": False, "key": "C13/decode-panic/native-fuzz", "msg": pm.group(3)[:300]},
                   "note": "found by native fuzzing; log: " + os.path.join(rundir, "gofuzz.log")}
            viol.append(("C13/decode-panic/native-fuzz", "native fuzzing found an input on which Unmarshal panics: " + pm.group(3)[:200], save_fail(pid, obj=obj, tag="-gofuzz")))
            shutil.rmtree(corpus, ignore_errors=True)
        elif crashers:
            for c in crashers[:3]:
                data, resp = parse_corpus(open(c).read())
                case = {"mode": "decode", "frame": base64.b64encode(data).decode(), "response": resp, "mutation": "native-fuzz"}
                obj = {"property": pid, "case": case, "verdict": {"ok": False, "key": "C13/decode-panic/native-fuzz", "msg": "go test -fuzz crasher " + os.path.basename(c)},
                       "note": "found by native fuzzing; log: " + os.path.join(rundir, "gofuzz.log")}
                viol.append(("C13/decode-panic/native-fuzz", "native fuzzing found an input on which Unmarshal panics", save_fail(pid, obj=obj, tag="-gofuzz")))
            shutil.rmtree(corpus, ignore_errors=True)
        elif rc != 0:
            inc.append("native fuzzing ended with rc=%s without a crasher (see %s)" % (rc, os.path.join(rundir, "gofuzz.log")))
        return execs, viol, inc, {"native-fuzz-execs": execs, "native-fuzz-seconds": int(time.time() - t0)}

    EXTRA["gofuzz"] = gofuzz


def parse_corpus(txt):
    """go test fuzz v1 corpus file with ([]byte, bool)."""
    data, resp = b"", False
    for line in txt.splitlines():
        line = line.strip()
        m = re.match(r'^\[\]byte\((".*")\)$', line)
        if m:
            data = eval("b" + m.group(1)) if False else go_unquote(m.group(1))
        m = re.match(r"^bool\((true|false)\)$", line)
        if m:
            resp = m.group(1) == "true"
    return data, resp


def go_unquote(q):
    # Go quoted string -> bytes (handles \xNN, \n, \t, \\, \", \uNNNN via python's unicode_escape for the simple cases)
    s = q[1:-1]
    out = bytearray()
    i = 0
    while i < len(s):
        ch = s[i]
        if ch != "\\":
            out.extend(ch.encode("utf-8"))
            i += 1
            continue
        n = s[i + 1]
        if n == "x":
            out.append(int(s[i + 2:i + 4], 16)); i += 4
        elif n == "u":
            out.extend(chr(int(s[i + 2:i + 6], 16)).encode("utf-8")); i += 6
        elif n == "U":
            out.extend(chr(int(s[i + 2:i + 10], 16)).encode("utf-8")); i += 10
        elif n in "01234567":
            out.append(int(s[i + 1:i + 4], 8)); i += 4
        else:
            out.extend({"n": b"\n", "t": b"\t", "r": b"\r", "\\": b"\\", '"': b'"', "'": b"'", "a": b"\a", "b": b"\b", "f": b"\f", "v": b"\v"}[n]); i += 2
    return bytes(out)
