// C16 — the generator is total, deterministic and never silently emits broken code.
//
// Generated: batches of service definitions (gen.GenDef): 1-12 methods over the
// lattice of call-type options (singletons mostly, sometimes illegal
// multi-sets), async / per_node_arg / custom_return_type, stream flags,
// file-local, google.protobuf.Empty and imported user messages, 0-2 services,
// identifier spellings from ordinary and hostile pools. Each definition is
// labelled from the definition itself (gen.Analyze): legal / illegal /
// unspecified.
//
// Run: the working tree's plugin binary three times on the same request (60 s
// limit each) and protoc-gen-go once; all accepted output of a batch is written
// as packages p<i> of one scratch module and compiled with one `go build ./...`
// against /repo's runtime.
//
// Oracle (only what the property states): the plugin terminates; it either
// prints a diagnostic (non-zero exit or response error, with a message, and no
// Go panic trace) or emits files, never both; the three runs give the same set
// of (file name, bytes); emitted files compile together with protoc-gen-go's
// message code; legal definitions are accepted (and produce output),
// illegal ones are refused. Which diagnostic text is printed, and what happens
// to unspecified definitions beyond "diagnostic or compiling output", is left
// open. A definition whose message code does not compile on its own
// (protoc-gen-go's business) or that is not a valid proto file is excluded.
package c16

import (
	"encoding/json"
	"fmt"
	"os"
	"sort"
	"strings"
	"testing"

	"pgregory.net/rapid"

	"verif/gen"
	"verif/vt"
)

// Case is a batch of definitions; definition i is generated into package p<i>.
type Case struct {
	Defs []gen.Def `json:"defs"`
}

func batchSize() int {
	if vt.Tier() == "thorough" {
		return 16
	}
	return 8
}

func genCase(t *rapid.T) Case {
	k := batchSize()
	// mostly full batches (one go build per batch), shrinking towards one definition
	sizes := []int{1, 2, 4}
	for i := 0; i < 13; i++ {
		sizes = append(sizes, k)
	}
	n := rapid.SampledFrom(sizes).Draw(t, "batch")
	defGen := rapid.Custom(func(t *rapid.T) gen.Def { return gen.GenDef(t, gen.GenOpts{}) })
	return Case{Defs: rapid.SliceOfN(defGen, n, n).Draw(t, "defs")}
}

// knownKeys reads the open findings of C16 (vt does the same to decide whether
// a failing key is known; the batch needs it to prefer an unknown key when
// several definitions of one batch fail).
func knownKeys() map[string]bool {
	res := map[string]bool{}
	b, err := os.ReadFile(os.Getenv("VERIF_KNOWN"))
	if err != nil {
		return res
	}
	var ff struct {
		Findings []vt.Finding `json:"findings"`
	}
	if json.Unmarshal(b, &ff) != nil {
		return res
	}
	for _, f := range ff.Findings {
		if f.Property == "C16" && f.Status == "open" && f.Key != "" {
			res[f.Key] = true
		}
	}
	return res
}

type failure struct {
	def     int
	key     string
	msg     string
	detail  string
	kind    string  // problem kind of the failing (variant) definition
	feature string  // feature or row the failure is attributed to
	culprit gen.Def // the failing single-cause variant (or the definition itself)
}

func keyOf(kind string, d gen.Def, feature string) string {
	if strings.Contains(d.Param, "dev=true") {
		feature = "dev=true;" + feature
	}
	return "C16/" + kind + "/" + feature
}

// attribute turns the failing definitions of a batch into keyed failures. A
// failing definition is re-run in single-cause variants (gen.Candidates): one
// per suspicious feature with everything else legalised, the fully legalised
// definition, and one per distinct method row of the latter. The key names a
// feature (or, if the legalised definition fails too, a row) that fails on its
// own; only if none does, the combination. The variants of all failing
// definitions of the batch are compiled in one extra build.
func attribute(tl gen.Tools, outs []gen.Outcome, probs []gen.Problem) ([]failure, error) {
	type cand struct {
		def int
		c   gen.Candidate
	}
	var cands []cand
	var fails []failure
	runs := 1
	for i, p := range probs {
		if p.Kind == "" {
			continue
		}
		cs := gen.Candidates(outs[i].Def)
		if len(cs) == 1 {
			name := strings.TrimPrefix(cs[0].Key, "row:")
			fails = append(fails, failure{i, keyOf(p.Kind, outs[i].Def, name), p.Msg, p.Detail, p.Kind, name, outs[i].Def})
			continue
		}
		for _, c := range cs {
			cands = append(cands, cand{i, c})
		}
		if p.Kind == "nondeterministic" || (p.Kind == "illegal-accepted" && outs[i].NonDet != "") {
			runs = 3
		}
	}
	if len(cands) == 0 {
		return fails, nil
	}
	defs := make([]gen.Def, len(cands))
	for i, c := range cands {
		defs[i] = c.c.Def
	}
	vouts, err := gen.EvalBatch(tl, defs, runs)
	if err != nil {
		return nil, err
	}
	vprobs := make([]gen.Problem, len(vouts))
	for i, vo := range vouts {
		if vo.Invalid == "" {
			vprobs[i] = gen.Judge(vo)
		}
	}
	for i, p := range probs {
		if p.Kind == "" {
			continue
		}
		var feats, rows []int
		base := -1
		for k, c := range cands {
			if c.def != i {
				continue
			}
			switch {
			case c.c.Key == gen.BaselineKey:
				base = k
			case strings.HasPrefix(c.c.Key, "row:"):
				rows = append(rows, k)
			default:
				feats = append(feats, k)
			}
		}
		if base < 0 && len(rows) == 0 && len(feats) == 0 {
			continue // handled above (single candidate)
		}
		use, kind := feats, p.Kind
		if base < 0 || vprobs[base].Kind != "" {
			// no suspicious feature, or the legalised definition fails as well
			use = rows
			if base >= 0 {
				kind = vprobs[base].Kind
			}
		}
		found := false
		var names []string
		for _, k := range use {
			name := strings.TrimPrefix(cands[k].c.Key, "row:")
			names = append(names, name)
			if vp := vprobs[k]; vp.Kind != "" {
				found = true
				fails = append(fails, failure{i, keyOf(vp.Kind, cands[k].c.Def, name), vp.Msg, vp.Detail, vp.Kind, name, cands[k].c.Def})
			}
		}
		if !found {
			// nothing fails on its own: the failure needs the combination
			twins := len(feats) == 0 && outs[i].Analysis.Twins
			if base >= 0 && vprobs[base].Kind != "" && gen.Analyze(cands[base].c.Def).Twins {
				// the fully legalised definition fails as well and still has the twins: they are the cause,
				// whatever hostile features the original carried besides
				twins = true
			}
			if len(use) > 0 && twins {
				// a legal definition whose rows pass one by one and that uses two
				// reply types of one base name
				names = []string{"same-base-name-types"}
			}
			// a name that collides with another name of the same definition cannot fail "on its
			// own" (legalising the partner removes the collision): it is the root cause
			// (the same holds for a name that collides with an identifier the templates derive from
			// another name of the definition, e.g. message CorrectableStreamFoo next to a
			// correctable stream method returning Foo, when Foo is itself a hostile spelling)
		pick:
			for _, cls := range []string{"=dup-go-name", "=RegisterXServer", "=XServer", "=CorrectableStreamX", "=CorrectableX", "=AsyncX", "=InternalX", "=internalX", "=XQF"} {
				for _, n := range names {
					if strings.HasSuffix(n, cls) {
						names = []string{n}
						break pick
					}
				}
			}
			sort.Strings(names)
			if len(names) > 4 {
				names = append(names[:4], "…")
			}
			fails = append(fails, failure{i, keyOf(kind, outs[i].Def, strings.Join(names, "&")), p.Msg, p.Detail, kind, "", outs[i].Def})
		}
	}
	return fails, nil
}

func classesOf(o gen.Outcome, p gen.Problem) []string {
	a := o.Analysis
	if o.Invalid != "" {
		return []string{"excluded:invalid-definition"}
	}
	res := "accepted"
	switch {
	case o.Diagnosed:
		res = "diagnosed"
	case o.TimedOut || o.Crashed || o.Garbled || o.Silent || o.Both:
		res = "broken-run"
	}
	cl := []string{"label:" + a.Label, a.Label + "/" + res, "methods:" + bucket(a.Methods)}
	for _, ct := range a.CallTypes {
		cl = append(cl, "calltype:"+ct)
	}
	for _, op := range a.Options {
		cl = append(cl, "option:"+op)
	}
	if a.Imported {
		cl = append(cl, "imported-type")
	}
	if o.Def.Dep != nil {
		cl = append(cl, "second-user-file")
	}
	if a.Hostile {
		cl = append(cl, "hostile-name")
	}
	if a.Twins {
		cl = append(cl, "same-base-name-types")
	}
	if len(o.Def.File.Services) > 1 {
		cl = append(cl, "two-services")
	}
	if strings.Contains(o.Def.Param, "dev=true") {
		cl = append(cl, "dev=true")
	}
	if a.NonTrivial {
		cl = append(cl, "nontrivial-definition")
	}
	if o.Compiled {
		cl = append(cl, "compiled")
	}
	if p.Kind != "" {
		cl = append(cl, "fails:"+p.Kind)
	}
	if _, ok := gen.Twin(o.Def); ok && o.Accepted && len(o.Files) > 0 {
		cl = append(cl, "generated-also-together-with-its-twin")
	}
	return cl
}

func bucket(n int) string {
	switch {
	case n == 0:
		return "0"
	case n == 1:
		return "1"
	case n <= 3:
		return "2-3"
	case n <= 7:
		return "4-7"
	}
	return "8-12"
}

func run(c Case) vt.Verdict {
	tl := gen.DefaultTools()
	outs, err := gen.EvalBatch(tl, c.Defs, 3)
	if err != nil {
		return vt.Verdict{OK: true, Inconclusive: true, Msg: "harness: " + err.Error(), Classes: []string{"harness-trouble"}}
	}
	probs := make([]gen.Problem, len(outs))
	var classes []string
	nontrivial := false
	failing := false
	for i, o := range outs {
		if o.Invalid == "" {
			probs[i] = gen.Judge(o)
			if o.Analysis.NonTrivial {
				nontrivial = true
			}
		}
		if probs[i].Kind != "" {
			failing = true
		}
		classes = append(classes, classesOf(o, probs[i])...)
	}
	if !failing {
		return vt.Verdict{OK: true, NonTrivial: nontrivial, Classes: classes}
	}
	fails, err := attribute(tl, outs, probs)
	if err != nil {
		return vt.Verdict{OK: true, Inconclusive: true, Msg: "harness (attribution): " + err.Error(), Classes: append(classes, "harness-trouble")}
	}
	known := knownKeys()
	sort.SliceStable(fails, func(i, j int) bool {
		if known[fails[i].key] != known[fails[j].key] {
			return !known[fails[i].key]
		}
		if fails[i].def != fails[j].def {
			return fails[i].def < fails[j].def
		}
		return fails[i].key < fails[j].key
	})
	f := fails[0]
	var allKeys []string
	seen := map[string]bool{}
	for _, x := range fails {
		if !seen[x.key] {
			seen[x.key] = true
			allKeys = append(allKeys, x.key)
		}
	}
	if known[f.key] && inlineKnown() {
		// every failure of the batch is an open known finding: the failing
		// definitions are excluded (counted per definition as classes
		// excluded-known:<key>) and the rest of the batch counts as evaluated.
		// In replay mode, and with VERIF_C16_INLINE_KNOWN=0, the known key is
		// returned instead and vt does the counting per batch.
		nontrivial = false
		bad := map[int]bool{}
		for _, x := range fails {
			bad[x.def] = true
		}
		for i, o := range outs {
			if !bad[i] && o.Invalid == "" && o.Analysis.NonTrivial {
				nontrivial = true
			}
		}
		for _, k := range allKeys {
			classes = append(classes, "excluded-known:"+k)
		}
		return vt.Verdict{OK: true, NonTrivial: nontrivial, Classes: classes}
	}
	// for the report: the smallest definition that still fails this way
	runs := 1
	if f.kind == "nondeterministic" {
		runs = 3
	}
	minimal := f.culprit
	if f.feature != "" {
		minimal = gen.Minimise(tl, f.culprit, f.kind, f.feature, runs)
	}
	return vt.Verdict{OK: false, Key: f.key, Classes: classes,
		Msg: fmt.Sprintf("definition %d of the batch (%s): %s [smallest failing variant: %s]", f.def, outs[f.def].Analysis.Label, f.msg, gen.DefJSON(minimal)),
		History: map[string]any{"failing_keys": allKeys, "detail": f.detail, "outcomes": outs,
			"minimal_case": Case{Defs: []gen.Def{minimal}}}}
}

func inlineKnown() bool {
	return os.Getenv("VERIF_MODE") != "replay" && os.Getenv("VERIF_C16_INLINE_KNOWN") != "0"
}

func TestProp(t *testing.T) {
	vt.Main(t, vt.Spec[Case]{
		ID:           "C16",
		Rule:         "a case is a batch of rapid-generated service definitions (8 per batch quick, 16 thorough; 1-12 methods over call-type option sets, async/per_node_arg/custom_return_type, stream flags, file-local/Empty/imported message types (the imported Go package in a third of the cases named like a package the generated code imports itself: encoding, fmt, gorums, context, ...), 0-2 services, ordinary and hostile identifier spellings, leading comments of rpcs with awkward texts (comment delimiters, template syntax, build constraints, quotes, empty lines), parameters ''/paths=source_relative/dev=true), each run 3x through the working tree's plugin - and, if accepted, generated once more by one invocation together with a 'version 2' twin (same service and method names, other package, call types rotated), in both orders, where every file must come out as it does alone - and compiled with protoc-gen-go's message code in one go build per batch; a definition is non-trivial if it has >= 2 methods of different call types, or an advanced option or stream flag, or an imported message type, or a name from a hostile pool; the batch is non-trivial if one of its definitions is (class nontrivial-definition counts definitions); distinct = distinct canonical JSON of the batch; every definition that is refused alone is also generated by one invocation together with a small legal companion file, in both orders, and must still draw a diagnostic (diagnostic-lost)",
		Gen:          genCase,
		Run:          run,
		TrackCurrent: true,
		MaxSamples:   2,
	})
}

// TestPools checks the generator's own assumptions: ordinary pool names are
// ordinary by the labelling predicate and have pairwise distinct Go names.
func TestPools(t *testing.T) {
	if err := gen.CheckPools(); err != nil {
		t.Fatal(err)
	}
}

// TestHistogram (VERIF_HISTOGRAM=n) draws n definitions, evaluates them and
// prints the class histogram; a development aid, not part of the check.
func TestHistogram(t *testing.T) {
	var n int
	fmt.Sscanf(os.Getenv("VERIF_HISTOGRAM"), "%d", &n)
	if n <= 0 {
		t.Skip("set VERIF_HISTOGRAM=<n>")
	}
	tl := gen.DefaultTools()
	g := rapid.Custom(func(t *rapid.T) gen.Def { return gen.GenDef(t, gen.GenOpts{}) })
	hist := map[string]int{}
	keys := map[string]string{}
	for start := 0; start < n; start += 16 {
		var defs []gen.Def
		for i := start; i < start+16 && i < n; i++ {
			defs = append(defs, g.Example(i+1))
		}
		outs, err := gen.EvalBatch(tl, defs, 3)
		if err != nil {
			t.Fatal(err)
		}
		probs := make([]gen.Problem, len(outs))
		for i, o := range outs {
			if o.Invalid == "" {
				probs[i] = gen.Judge(o)
			} else {
				t.Logf("invalid: %s: %s", o.Invalid, gen.DefJSON(o.Def))
			}
			for _, c := range classesOf(o, probs[i]) {
				hist[c]++
			}
		}
		fails, err := attribute(tl, outs, probs)
		if err != nil {
			t.Fatal(err)
		}
		for _, f := range fails {
			hist["key:"+f.key]++
			if _, ok := keys[f.key]; !ok {
				runs := 1
				if f.kind == "nondeterministic" {
					runs = 3
				}
				minimal := f.culprit
				if f.feature != "" {
					minimal = gen.Minimise(tl, f.culprit, f.kind, f.feature, runs)
				}
				keys[f.key] = f.msg + " DETAIL " + f.detail + " MINIMAL " + gen.DefJSON(minimal)
			}
		}
	}
	var names []string
	for c := range hist {
		names = append(names, c)
	}
	sort.Strings(names)
	for _, c := range names {
		fmt.Printf("%6d  %s\n", hist[c], c)
	}
	if os.Getenv("VERIF_HISTOGRAM_KEYS") != "" {
		var ks []string
		for k := range keys {
			ks = append(ks, k)
		}
		sort.Strings(ks)
		for _, k := range ks {
			fmt.Printf("KEY %s\n    %s\n", k, keys[k])
		}
	}
}

// TestSweep (VERIF_C16_SWEEP=n) enumerates, for n legal generated definitions,
// every single-name corruption (gen.SweepNames), evaluates them and prints the
// distinct failure keys with one minimal definition each. A development aid
// used to list the single-name findings of C16 exhaustively (known_findings.json
// is never written at run time).
func TestSweep(t *testing.T) {
	var n int
	fmt.Sscanf(os.Getenv("VERIF_C16_SWEEP"), "%d", &n)
	if n <= 0 {
		t.Skip("set VERIF_C16_SWEEP=<n>")
	}
	tl := gen.DefaultTools()
	g := rapid.Custom(func(t *rapid.T) gen.Def { return gen.GenDef(t, gen.GenOpts{LegalOnly: true, NoDev: true}) })
	var defs []gen.Def
	for i := 0; i < n; i++ {
		defs = append(defs, gen.SweepNames(g.Example(i+1))...)
	}
	fmt.Printf("SWEEP %d definitions\n", len(defs))
	keys := map[string]string{}
	count := map[string]int{}
	for start := 0; start < len(defs); start += 16 {
		end := start + 16
		if end > len(defs) {
			end = len(defs)
		}
		outs, err := gen.EvalBatch(tl, defs[start:end], 1)
		if err != nil {
			t.Fatal(err)
		}
		probs := make([]gen.Problem, len(outs))
		for i, o := range outs {
			if o.Invalid == "" {
				probs[i] = gen.Judge(o)
			}
		}
		fails, err := attribute(tl, outs, probs)
		if err != nil {
			t.Fatal(err)
		}
		for _, f := range fails {
			count[f.key]++
			if _, ok := keys[f.key]; !ok {
				keys[f.key] = f.msg + " CASE " + gen.DefJSON(f.culprit)
			}
		}
	}
	var ks []string
	for k := range keys {
		ks = append(ks, k)
	}
	sort.Strings(ks)
	for _, k := range ks {
		fmt.Printf("KEY %s n=%d\n    %s\n", k, count[k], keys[k])
	}
}
