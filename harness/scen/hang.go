package scen

import (
	"os"
	"regexp"
	"runtime"
	"sort"
	"strings"
	"sync/atomic"
	"time"
)

// B is the generous hang bound (DESIGN.md 1.3). Typical latencies are
// 0.1-5 ms; a wait that exceeds B is re-examined after another B before it is
// called a hang.
var B = 10 * time.Second

// Goroutine is one parsed goroutine of a stack dump.
type Goroutine struct {
	ID     string
	State  string
	Frames []string // function names, innermost first
	Raw    string
}

var hangsConfirmed int32

var hdrRe = regexp.MustCompile(`^goroutine (\d+) \[([^\]]*)\]:`)

// Stacks returns all goroutines of the process.
func Stacks() []Goroutine {
	buf := make([]byte, 1<<20)
	for {
		n := runtime.Stack(buf, true)
		if n < len(buf) {
			buf = buf[:n]
			break
		}
		buf = make([]byte, 2*len(buf))
	}
	var out []Goroutine
	for _, blk := range strings.Split(string(buf), "\n\n") {
		lines := strings.Split(blk, "\n")
		if len(lines) == 0 {
			continue
		}
		m := hdrRe.FindStringSubmatch(lines[0])
		if m == nil {
			continue
		}
		st := m[2]
		if i := strings.Index(st, ","); i >= 0 {
			st = st[:i]
		}
		g := Goroutine{ID: m[1], State: st, Raw: blk}
		for _, l := range lines[1:] {
			if strings.HasPrefix(l, "\t") || l == "" {
				continue
			}
			fn := l
			if strings.HasPrefix(fn, "created by ") {
				fn = "created by " + trimArgs(strings.TrimPrefix(fn, "created by "))
				if i := strings.Index(fn, " in goroutine"); i >= 0 {
					fn = fn[:i]
				}
			} else {
				fn = trimArgs(fn)
			}
			g.Frames = append(g.Frames, fn)
		}
		out = append(out, g)
	}
	return out
}

func trimArgs(fn string) string {
	if i := strings.LastIndex(fn, "("); i > 0 {
		// keep receiver parentheses like (*channel).sender: cut only the final argument list
		return fn[:i]
	}
	return fn
}

const libPrefix = "github.com/relab/gorums."

// LibFrame returns the innermost frame of g that is in the gorums runtime
// (not in a _test file; generated stubs live in verif/puppet).
func (g Goroutine) LibFrame() string {
	for _, f := range g.Frames {
		if strings.HasPrefix(f, "created by ") {
			continue
		}
		if strings.HasPrefix(f, libPrefix) {
			return strings.TrimPrefix(f, libPrefix)
		}
	}
	return ""
}

// HasFrame reports whether any frame of g contains sub.
func (g Goroutine) HasFrame(sub string) bool {
	for _, f := range g.Frames {
		if strings.Contains(f, sub) {
			return true
		}
	}
	return false
}

// CreatedBy returns the creator function of g ("" for the main goroutine).
func (g Goroutine) CreatedBy() string {
	for _, f := range g.Frames {
		if strings.HasPrefix(f, "created by ") {
			return strings.TrimPrefix(f, "created by ")
		}
	}
	return ""
}

// WaitResult classifies a bounded wait.
type WaitResult int

const (
	// Done : the event happened within B.
	Done WaitResult = iota
	// Late : it happened between B and 2B (reported as inconclusive, never a violation).
	Late
	// Hung : still blocked after 2B.
	Hung
)

// Await waits for ch with the hang rule. On Hung it returns the root-cause
// signature: the sorted set of `function@state` of library goroutines that
// were blocked at the same place in both dumps.
func Await(ch <-chan struct{}, bound time.Duration) (WaitResult, string) {
	// once a hang has been confirmed with the full bound in this process the
	// property is already violated; later waits (shrinking, replays) use a
	// shorter bound so that minimisation stays affordable.
	if atomic.LoadInt32(&hangsConfirmed) > 0 && bound > 2*time.Second {
		bound = 2 * time.Second
	}
	if waitCh(ch, bound) {
		return Done, ""
	}
	d1 := Stacks()
	if waitCh(ch, bound) {
		return Late, ""
	}
	d2 := Stacks()
	if f := os.Getenv("VERIF_DUMP"); f != "" {
		var sb strings.Builder
		for _, g := range d2 {
			sb.WriteString(g.Raw)
			sb.WriteString("\n\n")
		}
		_ = os.WriteFile(f, []byte(sb.String()), 0o644)
	}
	atomic.AddInt32(&hangsConfirmed, 1)
	return Hung, Signature(d1, d2)
}

// Signature computes the hang signature from two dumps.
func Signature(d1, d2 []Goroutine) string {
	first := map[string]string{}
	for _, g := range d1 {
		if lf := g.LibFrame(); lf != "" && isClientFrame(lf) {
			first[g.ID] = lf + "@" + g.State
		}
	}
	set := map[string]bool{}
	for _, g := range d2 {
		if lf := g.LibFrame(); lf != "" && isClientFrame(lf) {
			k := lf + "@" + g.State
			if first[g.ID] == k && !idleState(lf, g.State) {
				set[k] = true
			}
		}
	}
	var keys []string
	for k := range set {
		keys = append(keys, k)
	}
	sort.Strings(keys)
	if len(keys) == 0 {
		return "hang/no-library-goroutine-blocked"
	}
	return "hang/" + strings.Join(keys, "+")
}

// isClientFrame: frames of the server side (NodeStream and handlers) are not
// part of a client-side hang signature.
func isClientFrame(lf string) bool {
	if strings.HasPrefix(lf, "(*orderingServer)") || strings.HasPrefix(lf, "(*Server)") || strings.HasPrefix(lf, "SendMessage") {
		return false
	}
	return true
}

// idleState: a sender waiting in its select for work and a receiver waiting
// in RecvMsg are the normal idle states of a healthy channel.
func idleState(lf, state string) bool {
	if lf == "(*channel).sender" && state == "select" {
		return true
	}
	if lf == "(*channel).receiver" && state == "select" {
		return true // parked in RecvMsg
	}
	if lf == "(*channel).reconnect" && state == "select" {
		return true // the receiver's back-off wait while a node is down
	}
	return false
}
