#!/usr/bin/env python3
"""Sensitivity helper: apply a textual mutation to /repo, run checks, revert.
usage: trymut.py <file> <old> <new> <ID>[,<ID>...] [tier]
The mutation is reverted with `git -C /repo checkout -- <file>` afterwards."""
import subprocess, sys, os
f, old, new, ids = sys.argv[1:5]
tier = sys.argv[5] if len(sys.argv) > 5 else "quick"
p = os.path.join("/repo", f)
s = open(p).read()
if old not in s:
    print("pattern not found"); sys.exit(3)
open(p, "w").write(s.replace(old, new, 1))
try:
    env = dict(os.environ, GOFLAGS="-mod=mod", GOPROXY="off", GOSUMDB="off", GOTOOLCHAIN="local")
    r = subprocess.run(["go", "build", "./..."], cwd="/repo", env=env, capture_output=True, text=True)
    if r.returncode != 0:
        print("mutant does not compile:", r.stderr[:500]); sys.exit(4)
    for pid in ids.split(","):
        r = subprocess.run(["/verif/check", pid, tier], cwd="/verif", capture_output=True, text=True)
        lines = [l for l in r.stdout.splitlines() if "violation" in l.lower() or "INCONCLUSIVE" in l or l.startswith(pid)]
        print("%s rc=%d :: %s" % (pid, r.returncode, " | ".join(l[:260] for l in lines[:4])))
finally:
    subprocess.run(["git", "-C", "/repo", "checkout", "--", f])
