// C07 — minority failures are tolerated; every failing node is reported exactly once.
//
// Two generated case shapes: (Q) one scripted call with per-node failure kinds
// and strike positions (qeng), and (P) a concurrent program of calls that all
// wait for held handlers on "victim" servers which are then stopped (peng):
// every waiting call must be completed with exactly one error per victim.
package c07

import (
	"fmt"
	"regexp"
	"sort"
	"strconv"
	"strings"
	"sync/atomic"
	"testing"

	"pgregory.net/rapid"

	"verif/peng"
	"verif/qeng"
	"verif/scen"
	"verif/vt"
)

type Case struct {
	Q *qeng.Case `json:"q,omitempty"`
	P *peng.Case `json:"p,omitempty"`
	// Victims are the servers (program shape) whose handlers are held and which are stopped.
	Victims []int `json:"victims,omitempty"`
}

var progKinds = []string{"RPC", "QC", "QCPerNode", "QCPerNode", "QCCombo", "QCCustom", "Async", "AsyncPerNode", "AsyncCombo", "Corr", "CorrPerNode", "CorrCombo"}

func genProgram(t *rapid.T) Case {
	n := rapid.IntRange(2, 4).Draw(t, "n")
	c := peng.Case{N: n, EndCheck: true}
	c.Mgrs = []scen.MgrOpts{{SendBuffer: rapid.SampledFrom([]uint{0, 0, 1, 4}).Draw(t, "sendBuffer"), DialTimeoutMs: 30, BackoffMs: 20,
		ListIDs: rapid.IntRange(0, 3).Draw(t, "listIDs") == 0}}
	ncfg := rapid.IntRange(1, 3).Draw(t, "ncfg")
	for i := 0; i < ncfg; i++ {
		size := rapid.IntRange(1, n).Draw(t, fmt.Sprintf("cfgSize%d", i))
		perm := rapid.Permutation(seqInts(n)).Draw(t, fmt.Sprintf("cfgPerm%d", i))
		cfg := append([]int(nil), perm[:size]...)
		sort.Ints(cfg)
		c.Configs = append(c.Configs, cfg)
	}
	c.Threads = rapid.IntRange(2, 5).Draw(t, "threads")
	// victims: a non-empty subset of the servers
	nv := rapid.IntRange(1, n).Draw(t, "nvictims")
	vperm := rapid.Permutation(seqInts(n)).Draw(t, "victimPerm")
	victims := append([]int(nil), vperm[:nv]...)
	sort.Ints(victims)
	isVictim := map[int]bool{}
	for _, v := range victims {
		isVictim[v] = true
	}
	nops := rapid.IntRange(3, 14).Draw(t, "nops")
	stopAt := rapid.IntRange(1, nops).Draw(t, "stopAt")
	for i := 0; i < nops; i++ {
		if i == stopAt {
			c.Ops = append(c.Ops, peng.Op{Kind: "sleep", Thread: 0, Us: rapid.SampledFrom([]int{200, 1000, 4000}).Draw(t, "stopAfterUs")})
			for _, v := range victims {
				c.Ops = append(c.Ops, peng.Op{Kind: "stop", Thread: 0, Call: scen.CallSpec{Node: v}})
			}
		}
		kind := rapid.SampledFrom(progKinds).Draw(t, fmt.Sprintf("kind%d", i))
		op := peng.Op{Kind: "call", Thread: 1 + rapid.IntRange(0, c.Threads-2).Draw(t, fmt.Sprintf("thr%d", i)), Behav: map[int]scen.Behaviour{}}
		spec := scen.CallSpec{Kind: kind, Ctx: "background"}
		spec.Config = rapid.IntRange(0, len(c.Configs)).Draw(t, fmt.Sprintf("cfg%d", i))
		servers := seqInts(n)
		if spec.Config > 0 {
			servers = c.Configs[spec.Config-1]
		}
		if kind == "RPC" {
			spec.Node = rapid.IntRange(0, n-1).Draw(t, fmt.Sprintf("node%d", i))
			servers = []int{spec.Node}
		}
		targets := 0
		if scen.HasPerNode(kind) {
			spec.PerNode = map[int]string{}
			for _, s := range servers {
				var parts []string
				if len(servers) > 1 && rapid.IntRange(0, 4).Draw(t, fmt.Sprintf("skip%d_%d", i, s)) == 0 {
					spec.PerNode[s] = "skip"
					continue
				}
				if rapid.Bool().Draw(t, fmt.Sprintf("tag%d_%d", i, s)) {
					parts = append(parts, fmt.Sprintf("tag:%d", s+1))
				}
				// time spent in the per-node function: the call has its message id but has not handed over its requests
				if rapid.IntRange(0, 2).Draw(t, fmt.Sprintf("delay%d_%d", i, s)) == 0 {
					parts = append(parts, fmt.Sprintf("delay:%d", rapid.SampledFrom([]int{100, 500, 2000}).Draw(t, fmt.Sprintf("delayUs%d_%d", i, s))))
				}
				if len(parts) > 0 {
					spec.PerNode[s] = strings.Join(parts, ",")
				}
				targets++
			}
			if targets == 0 {
				delete(spec.PerNode, servers[0])
				targets = 1
			}
		} else {
			targets = len(servers)
		}
		// the call needs every targeted node: it waits for the victims
		spec.Script = scen.QScript{Kind: "threshold", Q: targets}
		op.Call = spec
		for _, s := range servers {
			if isVictim[s] {
				op.Behav[s] = scen.Behaviour{Gate: true, Release: "early"}
			} else if rapid.IntRange(0, 3).Draw(t, fmt.Sprintf("lat%d_%d", i, s)) == 0 {
				op.Behav[s] = scen.Behaviour{SleepUs: rapid.IntRange(1, 1500).Draw(t, fmt.Sprintf("sleep%d_%d", i, s))}
			}
		}
		if scen.IsAsync(kind) || scen.IsCorr(kind) {
			op.Await = rapid.Bool().Draw(t, fmt.Sprintf("await%d", i))
		}
		if scen.IsCorr(kind) {
			// the caller waits in Watch alone, for a level the call never reaches
			spec.WaitWatch = rapid.IntRange(0, 2).Draw(t, fmt.Sprintf("waitWatch%d", i)) == 0
			op.Call = spec
		}
		c.Ops = append(c.Ops, op)
	}
	if stopAt >= nops {
		c.Ops = append(c.Ops, peng.Op{Kind: "sleep", Thread: 0, Us: 1000})
		for _, v := range victims {
			c.Ops = append(c.Ops, peng.Op{Kind: "stop", Thread: 0, Call: scen.CallSpec{Node: v}})
		}
	}
	if rapid.IntRange(0, 3).Draw(t, "failSend") == 0 {
		// one stream write fails (injected; nothing is written): the node it was meant for - victim or
		// not - fails that call and the calls waiting on the same stream, once each
		c.Mgrs[0].FailSendAt = []int{rapid.IntRange(1, 40).Draw(t, "failSendAt")}
	}
	c.Jitter = peng.GenJitter(t)
	return Case{P: &c, Victims: victims}
}

func seqInts(n int) []int {
	s := make([]int, n)
	for i := range s {
		s[i] = i
	}
	return s
}

func gen(t *rapid.T) Case {
	if rapid.IntRange(0, 3).Draw(t, "shape") == 0 {
		return genProgram(t)
	}
	c := qeng.Gen(t, qeng.Bias{Kinds: qeng.QCKinds(), MaxN: 7, AllowDown: true, AllowStop: true, AllowSilent: false, AllowCtx: false, AllCodes: true})
	return Case{Q: &c}
}

var nodeLineRe = regexp.MustCompile(`(?m)^\tnode (\d+): (.*)$`)

func runProgram(c Case) vt.Verdict {
	r := peng.Run(*c.P, peng.Hooks{})
	if r.SetupErr != "" {
		return vt.Verdict{OK: true, Inconclusive: true, Msg: r.SetupErr, Classes: []string{"setup-error"}}
	}
	classes := []string{"shape=program", fmt.Sprintf("victims=%d", len(c.Victims))}
	isVictim := map[int]bool{}
	for _, v := range c.Victims {
		isVictim[v] = true
	}
	injected := len(r.Clients) > 0 && atomic.LoadInt32(&r.Clients[0].SendsFailed) > 0
	if injected {
		classes = append(classes, "injected-send-failure")
	}
	if len(r.HungAfterClose) > 0 {
		h := r.HungAfterClose[0]
		sig := h
		if i := strings.Index(h, ": "); i >= 0 {
			sig = h[i+2:]
		}
		kind := strings.TrimSuffix(strings.Fields(h)[2], ":")
		return vt.Verdict{OK: false, Key: "C07/program/left-waiting/" + strings.ToLower(kind) + "/" + sig, History: r.Events, Classes: classes,
			Msg: fmt.Sprintf("%d call(s) were still waiting 2x%v after the servers whose answers they needed (%v) had been stopped: %s", len(r.HungAfterClose), scen.B, c.Victims, strings.Join(r.HungAfterClose, "; "))}
	}
	// error accounting of the calls that ended Incomplete
	stopT := -1
	for _, e := range r.Events {
		if e.Kind == "stop" && stopT < 0 {
			stopT = e.T
		}
	}
	inflightAtStop := 0
	issueT := map[uint64]int{}
	for _, e := range r.Events {
		if e.Kind == "issue" {
			issueT[e.Token] = e.T
		}
	}
	for _, ci := range r.Calls {
		var ret *scen.Event
		for i := range r.Events {
			if r.Events[i].Kind == "return" && r.Events[i].Token == ci.Token {
				ret = &r.Events[i]
				break
			}
		}
		if ret == nil {
			continue
		}
		if it, ok := issueT[ci.Token]; ok && it < stopT && ret.T > stopT {
			inflightAtStop++
		}
		if ci.Kind == "RPC" || !ret.IsInc {
			if ci.Kind != "RPC" && ret.Outcome == "value" {
				for _, s := range ci.Targets {
					if isVictim[s] {
						return vt.Verdict{OK: false, Key: "C07/program/success-despite-failed-node", History: r.Events, Classes: classes,
							Msg: fmt.Sprintf("call %d (%s) needed all its %d nodes but succeeded although server %d never answered", ci.Idx, ci.Kind, len(ci.Targets), s)}
					}
				}
			}
			continue
		}
		counts := map[int]int{}
		for _, m := range nodeLineRe.FindAllStringSubmatch(ret.ErrText, -1) {
			id, _ := strconv.ParseUint(m[1], 10, 32)
			for s, sid := range r.IDs[ci.Mgr] {
				if uint64(sid) == id {
					counts[s]++
				}
			}
		}
		for _, s := range ci.Targets {
			want := 0
			if isVictim[s] {
				want = 1
			}
			if injected && !isVictim[s] && counts[s] <= 1 {
				continue // the node whose stream write was failed on purpose may fail the calls pending on that stream
			}
			if counts[s] != want {
				return vt.Verdict{OK: false, Key: "C07/program/error-count", History: r.Events, Classes: classes,
					Msg: fmt.Sprintf("call %d (%s): server %d (victim=%v) is listed %d times in the error, want %d: %s", ci.Idx, ci.Kind, s, isVictim[s], counts[s], want, ret.ErrText)}
			}
		}
		if e, rr, ok := qeng.ParseCounts(ret.ErrText); ok && e+rr != len(ci.Targets) {
			return vt.Verdict{OK: false, Key: "C07/program/incomplete-counts", History: r.Events, Classes: classes,
				Msg: fmt.Sprintf("call %d (%s): errors (%d) + replies (%d) != targeted nodes (%d)", ci.Idx, ci.Kind, e, rr, len(ci.Targets))}
		}
	}
	if inflightAtStop > 0 {
		classes = append(classes, "calls-waiting-when-servers-stopped")
	}
	res := vt.Pass(inflightAtStop > 0, classes...)
	res.Inconclusive = r.Late
	return res
}

func run(c Case) vt.Verdict {
	if c.P != nil {
		return runProgram(c)
	}
	q := *c.Q
	r := qeng.Run(q)
	if r.SetupErr != "" {
		return vt.Verdict{OK: true, Inconclusive: true, Msg: r.SetupErr, Classes: []string{"setup-error"}}
	}
	classes, _ := qeng.Classes(q, r)
	v, extra, nontrivial := qeng.CheckC07(q, r)
	classes = append(classes, extra...)
	if v != nil {
		return vt.Verdict{OK: false, Key: v.Key, Msg: v.Msg, History: r.Events, Classes: classes}
	}
	res := vt.Pass(nontrivial, classes...)
	if r.Late {
		res.Inconclusive = true
	}
	return res
}

func TestProp(t *testing.T) {
	vt.Main(t, vt.Spec[Case]{
		ID:           "C07",
		Rule:         "fault enumeration by generation, two case shapes. (Q, 3 of 4) one scripted call on 1-7 servers with a failing subset of any size, per failing node a kind from {never started, stopped before the call, stopped at a generated position of the script (before the request is answered, while its handler is held, after its reply), handler status error with any of the 16 non-OK codes and a generated message, non-status Go error, reply together with an error}, thresholds 1..n+1 and value-dependent scripts, sync and async; oracle: success when the healthy replies satisfy the script, completion once every node answered or failed, exactly one 'node <id>:' line per failing node and none for healthy ones, handler code and message intact, connection failures of unavailable type, no reply entry for a failing node. (P, 1 of 4) a concurrent program: 2-5 threads issue 3-14 two-way calls of 12 kinds with contexts that never end on overlapping configurations, every call needs all its nodes (a third of the correctable callers wait in Watch alone, for a level that is never reached), per-node functions spend 0.1-2 ms per node (so calls hand over their requests in another order than they drew their message ids), handlers on a generated set of victim servers are held, then all victims are stopped while calls wait, in a quarter of the programs one injected failure of a single stream write (client stream interceptor); oracle: every call is completed (none left waiting), no call succeeds without its victims, every Incomplete error lists each victim exactly once and no healthy node (with an injected write failure a healthy node may be listed, at most once per call). Non-trivial = (Q) at least one failing node and (a stop after the handler was entered, or two different failure kinds, or a handler error); (P) at least one call was waiting when the servers were stopped (measured); in a sixth of the scripted cases with stops the nodes are partitioned instead (established connections cut and new connection attempts left unanswered, 30 s back-off; such a case has no plain stops)",
		Gen:          gen,
		Run:          run,
		TrackCurrent: true,
	})
}
