// C14 — configurations are sets of distinct pooled nodes; sound algebra, no aliasing.
//
// Stateful, model-based: a WithNoConnect manager is driven through the
// generated API (freshly generated puppet stubs) and the raw API with
// sequences of configuration-building operations over a small address pool
// (repeats, an FNV-1a collision pair, conflicting ids). Reference model: a
// pool id -> address and configurations as sorted id sets.
package c14

import (
	"fmt"
	"hash/fnv"
	"net"
	"sort"
	"strings"
	"testing"

	"github.com/relab/gorums"
	"pgregory.net/rapid"

	"verif/puppet"
	"verif/vt"
)

var addrPool = []string{
	"127.0.0.1:9001", "127.0.0.1:9002", "127.0.0.1:9003", "127.0.0.1:9004", "127.0.0.1:9005",
	"10.0.1.16:5319", "10.0.2.47:8124", // FNV-1a 32-bit collision pair
	"10.0.0.6:8656", "10.0.0.73:5840", // another collision pair
}

func fnv32a(s string) uint32 {
	h := fnv.New32a()
	_, _ = h.Write([]byte(s))
	return h.Sum32()
}

type MapEntry struct {
	Addr int    `json:"addr"`
	ID   uint32 `json:"id"`
}

// Op is one configuration-building operation.
type Op struct {
	// Kind: list | map | ids | and | except | withnew | without
	Kind  string `json:"kind"`
	Raw   bool   `json:"raw,omitempty"` // through the raw API instead of the generated one
	A     int    `json:"a,omitempty"`   // operand configuration (index modulo existing)
	B     int    `json:"b,omitempty"`
	Addrs []int  `json:"addrs,omitempty"`
	// Spell[i] is how list entry i is written: 0 canonical, 1 port with a leading zero, 2 as an
	// IPv4-mapped IPv6 literal (all three name the same endpoint and resolve to the same address)
	Spell []int      `json:"spell,omitempty"`
	Map   []MapEntry `json:"map,omitempty"`
	IDs   []uint32   `json:"ids,omitempty"`
	IDRef []int      `json:"idref,omitempty"` // ids taken from the pool by index (modulo), appended to IDs
	Inner string     `json:"inner,omitempty"` // withnew: list | map | ids
}

type Case struct {
	Ops []Op `json:"ops"`
}

func gen(t *rapid.T) Case {
	addrIdx := rapid.IntRange(0, len(addrPool)-1)
	smallID := rapid.Uint32Range(1, 6)
	idGen := rapid.OneOf(smallID, smallID, rapid.SampledFrom([]uint32{fnv32a(addrPool[0]), fnv32a(addrPool[5]), 0, 4294967295}))
	opGen := rapid.Custom(func(t *rapid.T) Op {
		k := rapid.SampledFrom([]string{"list", "list", "map", "map", "ids", "and", "and", "except", "withnew", "without"}).Draw(t, "kind")
		op := Op{Kind: k, Raw: rapid.IntRange(0, 3).Draw(t, "raw") == 0}
		op.A = rapid.IntRange(0, 7).Draw(t, "a")
		op.B = rapid.IntRange(0, 7).Draw(t, "b")
		genList := func() {
			op.Addrs = rapid.SliceOfN(addrIdx, 0, 5).Draw(t, "addrs")
			if rapid.IntRange(0, 3).Draw(t, "respell") == 0 {
				op.Spell = rapid.SliceOfN(rapid.IntRange(0, 2), len(op.Addrs), len(op.Addrs)).Draw(t, "spell")
			}
		}
		genMap := func() {
			op.Map = rapid.SliceOfN(rapid.Custom(func(t *rapid.T) MapEntry {
				return MapEntry{Addr: addrIdx.Draw(t, "addr"), ID: idGen.Draw(t, "id")}
			}), 0, 4).Draw(t, "map")
		}
		genIDs := func() {
			op.IDs = rapid.SliceOfN(idGen, 0, 3).Draw(t, "ids")
			op.IDRef = rapid.SliceOfN(rapid.IntRange(0, 9), 0, 4).Draw(t, "idref")
		}
		switch k {
		case "list":
			genList()
		case "map":
			genMap()
		case "ids", "without":
			genIDs()
		case "withnew":
			op.Inner = rapid.SampledFrom([]string{"list", "list", "map", "ids"}).Draw(t, "inner")
			switch op.Inner {
			case "list":
				genList()
			case "map":
				genMap()
			case "ids":
				genIDs()
			}
		}
		return op
	})
	return Case{Ops: rapid.SliceOfN(opGen, 1, 12).Draw(t, "ops")}
}

type qspec struct{ puppet.QuorumSpec }

// model state
type cfgRec struct {
	cfg  *puppet.Configuration // generated wrapper (nil if created through the raw API)
	raw  gorums.RawConfiguration
	ids  []uint32          // snapshot
	ptrs []*gorums.RawNode // snapshot
}

type state struct {
	mgr  *puppet.Manager
	pool map[uint32]string // id -> address
	cfgs []cfgRec
}

func sortedUnique(ids []uint32) []uint32 {
	m := map[uint32]bool{}
	for _, id := range ids {
		m[id] = true
	}
	out := make([]uint32, 0, len(m))
	for id := range m {
		out = append(out, id)
	}
	sort.Slice(out, func(i, j int) bool { return out[i] < out[j] })
	return out
}

func hasDup(ids []uint32) bool { return len(sortedUnique(ids)) != len(ids) }

func equalIDs(a, b []uint32) bool {
	if len(a) != len(b) {
		return false
	}
	for i := range a {
		if a[i] != b[i] {
			return false
		}
	}
	return true
}

func (s *state) poolIDs() []uint32 {
	var out []uint32
	for id := range s.pool {
		out = append(out, id)
	}
	sort.Slice(out, func(i, j int) bool { return out[i] < out[j] })
	return out
}

// nodeListOption builds the option for list/map/ids inputs and returns the
// model's expectation: want = ids of the expected result (nil if the op must
// fail), mustFail / mayFail, and the (id,addr) pairs the op may add to the pool.
type expect struct {
	want     []uint32
	mustFail string              // non-empty: the operation must fail, with this reason
	mayFail  bool                // rejecting is allowed (duplicates)
	adds     map[uint32][]string // pool additions (per id the addresses this operation may register)
}

// spelled writes the canonical address a in another way that names the same endpoint; it falls
// back to a if the standard resolver does not agree that the spelling resolves to a.
func spelled(a string, how int) string {
	host, port, err := net.SplitHostPort(a)
	if err != nil || how == 0 {
		return a
	}
	sp := a
	switch how {
	case 1:
		sp = host + ":0" + port
	case 2:
		sp = "[::ffff:" + host + "]:" + port
	}
	if r, err := net.ResolveTCPAddr("tcp", sp); err != nil || r.String() != a {
		return a
	}
	return sp
}

func (s *state) listOpt(addrs []int, spell ...int) (gorums.NodeListOption, expect) {
	var as []string
	e := expect{adds: map[uint32][]string{}}
	byID := map[uint32]string{}
	for k, i := range addrs {
		a := addrPool[i%len(addrPool)]
		if k < len(spell) {
			// the list names the endpoint in another spelling; the node is the one of the resolved address
			as = append(as, spelled(a, spell[k]))
		} else {
			as = append(as, a)
		}
		id := fnv32a(a)
		if prev, ok := byID[id]; ok && prev != a {
			e.mustFail = fmt.Sprintf("addresses %s and %s generate the same id %d", prev, a, id)
		}
		if prev, ok := byID[id]; ok && prev == a {
			e.mayFail = true // duplicate address: merged or rejected
		}
		byID[id] = a
		if pa, ok := s.pool[id]; ok && pa != a {
			e.mustFail = fmt.Sprintf("address %s generates id %d, which is registered for %s", a, id, pa)
		}
		e.want = append(e.want, id)
		if _, ok := s.pool[id]; !ok {
			e.adds[id] = append(e.adds[id], a)
		}
	}
	if len(as) == 0 {
		e.mustFail = "empty node list"
	}
	e.want = sortedUnique(e.want)
	return gorums.WithNodeList(as), e
}

func (s *state) mapOpt(entries []MapEntry) (gorums.NodeListOption, expect) {
	m := map[string]uint32{}
	e := expect{adds: map[uint32][]string{}}
	byID := map[uint32]string{}
	for _, en := range entries {
		m[addrPool[en.Addr%len(addrPool)]] = en.ID // later entries for one address overwrite (a Go map)
	}
	// deterministic iteration for the model
	var keys []string
	for a := range m {
		keys = append(keys, a)
	}
	sort.Strings(keys)
	for _, a := range keys {
		id := m[a]
		if prev, ok := byID[id]; ok && prev != a {
			e.mustFail = fmt.Sprintf("id %d given to two addresses %s and %s", id, prev, a)
		}
		byID[id] = a
		if pa, ok := s.pool[id]; ok && pa != a {
			e.mustFail = fmt.Sprintf("id %d is registered for %s, now given to %s", id, pa, a)
		}
		e.want = append(e.want, id)
		if _, ok := s.pool[id]; !ok {
			e.adds[id] = append(e.adds[id], a)
		}
	}
	if len(m) == 0 {
		e.mustFail = "empty node map"
	}
	e.want = sortedUnique(e.want)
	return gorums.WithNodeMap(m), e
}

func (s *state) resolveIDs(op Op) []uint32 {
	ids := append([]uint32(nil), op.IDs...)
	p := s.poolIDs()
	for _, r := range op.IDRef {
		if len(p) > 0 {
			ids = append(ids, p[r%len(p)])
		}
	}
	return ids
}

func (s *state) idsOpt(ids []uint32) (gorums.NodeListOption, expect) {
	e := expect{adds: map[uint32][]string{}}
	for _, id := range ids {
		if _, ok := s.pool[id]; !ok {
			e.mustFail = fmt.Sprintf("id %d is not registered", id)
		}
	}
	if len(ids) == 0 {
		e.mustFail = "empty id list"
	}
	if hasDup(ids) {
		e.mayFail = true
	}
	e.want = sortedUnique(ids)
	return gorums.WithNodeIDs(ids), e
}

func union(a, b []uint32) []uint32 { return sortedUnique(append(append([]uint32(nil), a...), b...)) }

func diff(a, b []uint32) []uint32 {
	rm := map[uint32]bool{}
	for _, id := range b {
		rm[id] = true
	}
	var out []uint32
	for _, id := range a {
		if !rm[id] {
			out = append(out, id)
		}
	}
	return sortedUnique(out)
}

func fail(key, f string, a ...any) *vt.Verdict {
	v := vt.Fail(key, f, a...)
	return &v
}

// checkConfig verifies the structural invariants of one configuration.
func (s *state) checkConfig(where string, cfg *puppet.Configuration, raw gorums.RawConfiguration) *vt.Verdict {
	ids := raw.NodeIDs()
	nodes := raw.Nodes()
	if raw.Size() != len(ids) || len(nodes) != len(ids) {
		return fail("C14/shape/size", "%s: Size()=%d, len(NodeIDs())=%d, len(Nodes())=%d", where, raw.Size(), len(ids), len(nodes))
	}
	for i := range ids {
		if i > 0 && ids[i] <= ids[i-1] {
			if ids[i] == ids[i-1] {
				return fail("C14/shape/duplicate-node", "%s: node id %d listed twice: %v", where, ids[i], ids)
			}
			return fail("C14/shape/unsorted", "%s: ids not sorted: %v", where, ids)
		}
		if nodes[i].ID() != ids[i] {
			return fail("C14/shape/ids-nodes-disagree", "%s: Nodes()[%d].ID()=%d but NodeIDs()[%d]=%d", where, i, nodes[i].ID(), i, ids[i])
		}
		pooled, ok := s.mgr.Node(ids[i])
		if !ok {
			return fail("C14/pool/not-pooled", "%s: node %d is not in the manager's pool", where, ids[i])
		}
		if pooled != nodes[i] {
			return fail("C14/pool/second-node-object", "%s: node %d is a different object than the manager's node for that id", where, ids[i])
		}
		if want, ok := s.pool[ids[i]]; ok && nodes[i].Address() != want {
			return fail("C14/pool/address", "%s: node %d has address %s, the model says %s", where, ids[i], nodes[i].Address(), want)
		}
	}
	if cfg != nil {
		gn := cfg.Nodes()
		if len(gn) != len(ids) || cfg.Size() != len(ids) {
			return fail("C14/shape/generated-size", "%s: generated Nodes() has %d entries, Size()=%d, NodeIDs has %d", where, len(gn), cfg.Size(), len(ids))
		}
		for i := range gn {
			if gn[i].RawNode != nodes[i] {
				return fail("C14/shape/generated-nodes", "%s: generated Nodes()[%d] wraps another node than the raw configuration's", where, i)
			}
		}
	}
	return nil
}

func run(c Case) vt.Verdict {
	s := &state{mgr: puppet.NewManager(gorums.WithNoConnect()), pool: map[uint32]string{}}
	classes := map[string]bool{}
	chained := 0
	for oi, op := range c.Ops {
		where := fmt.Sprintf("op %d (%s)", oi, op.Kind)
		var opt gorums.NodeListOption
		var e expect
		needA := op.Kind == "and" || op.Kind == "except" || op.Kind == "withnew" || op.Kind == "without"
		if needA && len(s.cfgs) == 0 {
			continue
		}
		var a, b cfgRec
		if len(s.cfgs) > 0 {
			a, b = s.cfgs[op.A%len(s.cfgs)], s.cfgs[op.B%len(s.cfgs)]
		}
		useRaw := op.Raw
		switch op.Kind {
		case "list":
			opt, e = s.listOpt(op.Addrs, op.Spell...)
			if hasDupInts(op.Addrs) {
				classes["duplicate-address"] = true
			}
		case "map":
			opt, e = s.mapOpt(op.Map)
		case "ids":
			ids := s.resolveIDs(op)
			opt, e = s.idsOpt(ids)
			if hasDup(ids) {
				classes["duplicate-id"] = true
			}
		case "and":
			e = expect{want: union(a.ids, b.ids), adds: map[uint32][]string{}}
			if useRaw || a.cfg == nil || b.cfg == nil {
				useRaw = true
				opt = a.raw.And(b.raw)
			} else {
				opt = a.cfg.And(b.cfg)
			}
			classes["overlap"] = classes["overlap"] || len(diff(a.ids, b.ids)) != len(a.ids)
			chained++
		case "except":
			e = expect{want: diff(a.ids, b.ids), adds: map[uint32][]string{}}
			if len(e.want) == 0 {
				e.mustFail = "empty result"
			}
			if useRaw || a.cfg == nil || b.cfg == nil {
				useRaw = true
				opt = a.raw.Except(b.raw)
			} else {
				opt = a.cfg.Except(b.cfg)
			}
			chained++
		case "without":
			ids := s.resolveIDs(op)
			e = expect{want: diff(a.ids, ids), adds: map[uint32][]string{}}
			if len(e.want) == 0 {
				e.mustFail = "empty result"
			}
			opt = a.raw.WithoutNodes(ids...)
			chained++
		case "withnew":
			var inner gorums.NodeListOption
			var ie expect
			switch op.Inner {
			case "map":
				inner, ie = s.mapOpt(op.Map)
			case "ids":
				inner, ie = s.idsOpt(s.resolveIDs(op))
			default:
				inner, ie = s.listOpt(op.Addrs, op.Spell...)
			}
			e = expect{want: union(a.ids, ie.want), mustFail: ie.mustFail, mayFail: ie.mayFail, adds: ie.adds}
			opt = a.raw.WithNewNodes(inner)
			chained++
		}
		if e.mustFail != "" && strings.Contains(e.mustFail, "same id") || strings.Contains(e.mustFail, "registered for") || strings.Contains(e.mustFail, "two addresses") {
			classes["id-conflict"] = true
		}

		var cfg *puppet.Configuration
		var raw gorums.RawConfiguration
		var err error
		if useRaw {
			raw, err = gorums.NewRawConfiguration(s.mgr.RawManager, opt)
		} else {
			cfg, err = s.mgr.NewConfiguration(qspec{}, opt)
			if cfg != nil {
				raw = cfg.RawConfiguration
			}
		}

		if err != nil {
			if e.mustFail == "" && !e.mayFail {
				return vt.Fail("C14/"+op.Kind+"/unexpected-error", "%s failed although the inputs are valid: %v", where, err)
			}
			// a failed operation may have registered some of its (correct) nodes
			if v := s.resyncPool(where, e); v != nil {
				return *v
			}
		} else {
			if e.mustFail != "" {
				// which clause?
				clause := "must-fail"
				switch {
				case strings.Contains(e.mustFail, "empty"):
					clause = "empty-accepted"
				case strings.Contains(e.mustFail, "not registered"):
					clause = "unknown-id-accepted"
				default:
					clause = "address-aliasing"
				}
				return vt.Fail("C14/"+op.Kind+"/"+clause, "%s succeeded (ids %v) although it must fail: %s", where, raw.NodeIDs(), e.mustFail)
			}
			for id, addrs := range e.adds {
				s.pool[id] = addrs[0] // no conflict on success: all entries of one id are the same address
			}
			if v := s.checkConfig(where, cfg, raw); v != nil {
				return *v
			}
			got := raw.NodeIDs()
			if !equalIDs(got, e.want) {
				return vt.Fail("C14/"+op.Kind+"/result-set", "%s: result ids %v, the model says %v", where, got, e.want)
			}
			s.cfgs = append(s.cfgs, cfgRec{cfg: cfg, raw: raw, ids: append([]uint32(nil), got...), ptrs: append([]*gorums.RawNode(nil), raw.Nodes()...)})
		}
		// pool agrees with the manager
		if s.mgr.Size() != len(s.pool) {
			return vt.Fail("C14/pool/size", "%s: manager has %d nodes, the model pool %d (%v vs %v)", where, s.mgr.Size(), len(s.pool), s.mgr.NodeIDs(), s.poolIDs())
		}
		mids := append([]uint32(nil), s.mgr.NodeIDs()...)
		if hasDup(mids) {
			return vt.Fail("C14/pool/duplicate", "%s: manager lists a node twice: %v", where, mids)
		}
		for _, n := range s.mgr.RawManager.Nodes() {
			if want, ok := s.pool[n.ID()]; !ok || want != n.Address() {
				return vt.Fail("C14/pool/address", "%s: pooled node %d has address %s, the model says %q", where, n.ID(), n.Address(), want)
			}
		}
		// every configuration ever created is unchanged and still well-formed
		for ci, rec := range s.cfgs {
			cur := rec.raw.NodeIDs()
			if !equalIDs(cur, rec.ids) {
				return vt.Fail("C14/"+op.Kind+"/operand-modified", "%s changed configuration %d: ids %v -> %v", where, ci, rec.ids, cur)
			}
			for i, n := range rec.raw.Nodes() {
				if n != rec.ptrs[i] {
					return vt.Fail("C14/"+op.Kind+"/operand-modified", "%s changed configuration %d: node object at position %d replaced", where, ci, i)
				}
			}
			if v := s.checkConfig(fmt.Sprintf("%s, re-check of configuration %d", where, ci), rec.cfg, rec.raw); v != nil {
				return *v
			}
		}
	}
	var cl []string
	for k := range classes {
		cl = append(cl, k)
	}
	if chained >= 3 {
		cl = append(cl, "chained>=3")
	}
	sort.Strings(cl)
	return vt.Pass(len(cl) > 0, cl...)
}

// resyncPool accepts nodes a failed operation registered before failing, as
// long as each is one of the operation's own (id, address) pairs.
func (s *state) resyncPool(where string, e expect) *vt.Verdict {
	for _, n := range s.mgr.RawManager.Nodes() {
		if _, ok := s.pool[n.ID()]; ok {
			continue
		}
		ok := false
		for _, a := range e.adds[n.ID()] {
			if a == n.Address() {
				ok = true
			}
		}
		if !ok {
			return fail("C14/pool/stray-node", "%s failed but left node %d (%s) in the pool, which is not one of its inputs", where, n.ID(), n.Address())
		}
		s.pool[n.ID()] = n.Address()
	}
	return nil
}

func hasDupInts(a []int) bool {
	m := map[int]bool{}
	for _, x := range a {
		if m[x%len(addrPool)] {
			return true
		}
		m[x%len(addrPool)] = true
	}
	return false
}

func TestProp(t *testing.T) {
	vt.Main(t, vt.Spec[Case]{
		ID:   "C14",
		Rule: "rapid-generated sequences of 1-12 configuration-building operations (WithNodeList, WithNodeMap, WithNodeIDs, And, Except, WithNewNodes, WithoutNodes) through the generated and the raw API on a WithNoConnect manager, over a pool of 9 addresses with two FNV-1a collision pairs, repeated addresses/ids, conflicting id assignments, overlapping and identical operands; every result and every earlier configuration is compared with a set/pool reference model after each operation; non-trivial = the sequence contains a duplicate, an overlap, an id conflict, or >= 3 derived configurations",
		Gen:  gen,
		Run:  run,
	})
}
