// Package peng runs generated client programs: several threads issuing calls
// of all kinds on one or more managers against a puppet cluster, with scripted
// handler behaviours, barriers, cancellations and sleeps. It returns the
// recorded history; oracles for C03, C04, C05, C09, C18 are in oracle.go.
package peng

import (
	"context"
	"fmt"
	"runtime"
	"strings"
	"sync"
	"sync/atomic"
	"time"

	"github.com/relab/gorums"
	"github.com/relab/gorums/tests/dummy"
	"pgregory.net/rapid"

	"verif/puppet"
	"verif/scen"
)

// Op is one step of a program.
type Op struct {
	Thread int `json:"thread"`
	// Kind: call | barrier | sleep
	Kind string        `json:"kind"`
	Mgr  int           `json:"mgr,omitempty"`
	Call scen.CallSpec `json:"call,omitempty"`
	// Behav scripts the handlers of this call per server (absent = answer at once).
	Behav map[int]scen.Behaviour `json:"behav,omitempty"`
	// CancelUs: for ctx "cancel", cancel this long after the call was issued (0 = only at the end).
	CancelUs int `json:"cancel_us,omitempty"`
	// Await: futures / correctables are waited for before the thread continues.
	Await bool `json:"await,omitempty"`
	// CancelOnReturn: the thread cancels the call's context as soon as the stub has returned
	// (the `defer cancel()` of a caller that gives every call a context of its own)
	CancelOnReturn bool `json:"cancel_on_return,omitempty"`
	Us             int  `json:"us,omitempty"` // sleep
}

// Case is a generated program.
type Case struct {
	N          int            `json:"n"`
	RecvBuffer uint           `json:"recv_buffer,omitempty"`
	Mgrs       []scen.MgrOpts `json:"mgrs"`
	Configs    [][]int        `json:"configs"` // configurations (server lists) created on every manager, indices start at 1 (0 = all servers)
	Threads    int            `json:"threads"`
	Ops        []Op           `json:"ops"`
	GoMaxProcs int            `json:"gomaxprocs,omitempty"`
	// Probe: after the program, send an RPC with a fresh context to every node of every manager.
	Probe bool `json:"probe,omitempty"`
	// HoldAtEnd: handlers that are gated stay blocked until after the probes (C04: a never-releasing handler)
	HoldAtEnd bool `json:"hold_at_end,omitempty"`
	// ProbeKinds: after the RPC probes, one call of each of these types on all servers must be
	// answered by every one of them (threshold = all).
	ProbeKinds []string `json:"probe_kinds,omitempty"`
	// ProbeSleepUs is the latency of the probes' handlers (0 = they answer at once).
	ProbeSleepUs int `json:"probe_sleep_us,omitempty"`
	// AliasCfg[i]: configuration i+1 (Configs[i]) registers its servers as further nodes with other
	// ids (one address under two ids in one manager), each with a connection of its own.
	AliasCfg []bool `json:"alias_cfg,omitempty"`
	// Down lists servers that are never started.
	Down []int `json:"down,omitempty"`
	// CtxCheck: before the gates are opened, every call whose context has ended
	// must have returned (C08); results in Result.HungCtx.
	CtxCheck bool `json:"ctx_check,omitempty"`
	// CloseCheck: the program contains close ops; after the threads are done every
	// call must have returned while the handlers are still held, and the manager's
	// goroutines must be gone (C12).
	CloseCheck bool `json:"close_check,omitempty"`
	// Jitter arms the schedule perturbation of the instrumented overlay for this
	// case (ignored when the overlay is not in use).
	Jitter *Jitter `json:"jitter,omitempty"`
	// EndCheck: after the threads are done every call must have ended although
	// the gated handlers stay blocked (C07: calls waiting for nodes whose
	// connection broke are completed); results in Result.HungAfterClose.
	EndCheck bool `json:"end_check,omitempty"`
	// ProbeMgrs restricts which managers probe (empty = all).
	ProbeMgrs []int `json:"probe_mgrs,omitempty"`
	// Drain: before pending calls are cancelled at the end, wait until every
	// targeted server has entered every call (programs without failures).
	Drain bool `json:"drain,omitempty"`
}

// Jitter is a seeded schedule perturbation: at every statement of the
// instrumented runtime, yield with probability Gosched/65536 or sleep up to
// MaxSleepUs with probability Sleep/65536.
type Jitter struct {
	Seed       uint64 `json:"seed"`
	Gosched    uint32 `json:"gosched"`
	Sleep      uint32 `json:"sleep"`
	MaxSleepUs int    `json:"max_sleep_us"`
}

// GenJitter draws a perturbation (nil in about half of the cases).
func GenJitter(t *rapid.T) *Jitter {
	if rapid.Bool().Draw(t, "jitter") {
		return nil
	}
	return &Jitter{
		Seed:       rapid.Uint64().Draw(t, "jitterSeed"),
		Gosched:    rapid.SampledFrom([]uint32{0, 600, 3000, 12000}).Draw(t, "jitterGosched"),
		Sleep:      rapid.SampledFrom([]uint32{0, 30, 150, 600}).Draw(t, "jitterSleep"),
		MaxSleepUs: rapid.SampledFrom([]int{20, 200, 1000}).Draw(t, "jitterMaxSleepUs"),
	}
}

// CallInfo describes an issued call to the oracles.
type CallInfo struct {
	Idx     int
	Op      int
	Token   uint64
	Seq     uint64
	Kind    string
	Thread  int
	Mgr     int
	Targets []int
	Spec    scen.CallSpec
	Call    *scen.Call
	Alias   bool // invoked on a configuration whose nodes carry the servers' alias ids
}

// idsOf is the node id per server in the configuration the call was invoked on.
func idsOf(r Result, ci CallInfo) []uint32 {
	ids := r.IDs[ci.Mgr]
	if !ci.Alias {
		return ids
	}
	al := make([]uint32, len(ids))
	for s := range al {
		al[s] = scen.AliasID(s)
	}
	return al
}

// Probe is the outcome of one probe RPC.
type Probe struct {
	Mgr    int
	Server int
	// Kind is "" for the RPC probe of one server, else the call type of a probe that must be
	// answered by every server (Server is -1)
	Kind string
	OK   bool
	Hung string
	Err  string
	// Attempts made (a probe is retried while it fails with an unavailable-type error)
	Attempts int
}

// Result of a run.
type Result struct {
	Events         []scen.Event
	Calls          []CallInfo
	IDs            [][]uint32 // per manager: node id per server
	Hung           []string   // calls that did not end: "call <idx> <kind>: <signature>"
	HungCtx        []string   // calls that did not return although their context had ended (checked while nodes still misbehave)
	BadCtxErr      []string   // calls that returned an error not matching their ended context
	CloseHung      string     // Close did not return: hang signature
	ClosePanic     string     // Close panicked
	HungAfterClose []string   // calls that did not return after Close returned
	Residue        []string   // goroutines of the closed manager that remain
	Late           bool
	Probes         []Probe
	SetupErr       string
	Cuts           int32 // "cut" operations performed
	Clients        []*scen.Client
	Cluster        *scen.Cluster
	// Residue is filled by runs that ask for it (C18)
	Routers    map[string]int
	Goroutines []string
}

type barrier struct {
	mu    sync.Mutex
	n     int
	count int
	ch    chan struct{}
}

func newBarrier(n int) *barrier { return &barrier{n: n, ch: make(chan struct{})} }

func (b *barrier) wait() {
	b.mu.Lock()
	b.count++
	ch := b.ch
	if b.count == b.n {
		b.count = 0
		b.ch = make(chan struct{})
		close(ch)
	}
	b.mu.Unlock()
	select {
	case <-ch:
	case <-time.After(2 * scen.B):
	}
}

// Hooks lets a property observe the run before teardown.
type Hooks struct {
	// BeforeTeardown runs after the program, the final waits and the probes,
	// while managers and servers are still up.
	BeforeTeardown func(r *Result)
}

// Run executes the program.
func Run(c Case, h Hooks) Result {
	var res Result
	if c.GoMaxProcs > 0 {
		old := runtime.GOMAXPROCS(c.GoMaxProcs)
		defer runtime.GOMAXPROCS(old)
	}
	if c.Jitter != nil && gorums.VerifSchedHook != nil && (c.Jitter.Gosched > 0 || c.Jitter.Sleep > 0) {
		gorums.VerifSchedHook(c.Jitter.Seed, c.Jitter.Gosched, c.Jitter.Sleep, time.Duration(c.Jitter.MaxSleepUs)*time.Microsecond)
		defer gorums.VerifSchedHook(0, 0, 0, 0)
	}
	cl := scen.NewCluster(c.N, c.RecvBuffer)
	res.Cluster = cl
	defer cl.Shutdown()
	for i := 0; i < c.N; i++ {
		down := false
		for _, d := range c.Down {
			if d == i {
				down = true
			}
		}
		if !down {
			cl.Start(i)
		}
	}
	var floodCancels []func()
	defer func() {
		for _, f := range floodCancels {
			f()
		}
	}()
	var floodMu sync.Mutex
	before := map[string]bool{}
	if c.CloseCheck {
		for _, g := range scen.Stacks() {
			before[g.ID] = true
		}
	}
	var closeMu sync.Mutex
	var clients []*scen.Client
	defer func() {
		cl.OpenAll()
		cl.Fab.UnblockAll()
		for _, client := range clients {
			for _, call := range client.Calls() {
				call.Cancel()
			}
			client.Close(scen.B)
		}
	}()
	for _, mo := range c.Mgrs {
		client, err := scen.NewClient(cl, mo)
		if err != nil {
			res.SetupErr = err.Error()
			return res
		}
		clients = append(clients, client)
		for ci, cfg := range c.Configs {
			add := client.AddConfig
			if ci < len(c.AliasCfg) && c.AliasCfg[ci] {
				add = client.AddAliasConfig
			}
			if _, err := add(cfg); err != nil {
				res.SetupErr = err.Error()
				return res
			}
		}
		res.IDs = append(res.IDs, client.IDs)
	}
	res.Clients = clients
	base := scen.NewTokens(len(c.Ops) + 1 + c.N*len(clients))
	// prepare calls
	calls := make([]*scen.Call, len(c.Ops))
	for i, op := range c.Ops {
		if op.Kind != "call" {
			continue
		}
		client := clients[op.Mgr%len(clients)]
		spec := op.Call
		spec.Thread = op.Thread
		if !scen.IsNodeCall(spec.Kind) {
			spec.Config = spec.Config % len(client.Configs)
		} else {
			spec.Node = spec.Node % c.N
		}
		tok := base + uint64(i)
		call := client.NewCall(i, tok, uint64(i+1), spec)
		calls[i] = call
		for s, b := range op.Behav {
			cl.SetBehaviour(s, tok, b)
		}
		res.Calls = append(res.Calls, CallInfo{Idx: i, Op: i, Token: tok, Seq: uint64(i + 1), Kind: spec.Kind, Thread: op.Thread,
			Mgr: op.Mgr % len(clients), Targets: call.Targets, Spec: spec, Call: call,
			Alias: !scen.IsNodeCall(spec.Kind) && client.IsAlias(spec.Config)})
	}
	nthreads := c.Threads
	if nthreads < 1 {
		nthreads = 1
	}
	bar := newBarrier(nthreads)
	var wg sync.WaitGroup
	for t := 0; t < nthreads; t++ {
		wg.Add(1)
		go func(t int) {
			defer wg.Done()
			for i, op := range c.Ops {
				switch {
				case op.Kind == "barrier":
					bar.wait()
				case op.Thread%nthreads != t:
				case op.Kind == "sleep":
					time.Sleep(time.Duration(op.Us) * time.Microsecond)
				case op.Kind == "newconfig":
					client := clients[op.Mgr%len(clients)]
					servers := cfgServers(c, op.Call.Config)
					_ = client.NewConfigUnrecordedWithNew(servers, op.Us%2 == 1, op.Us >= 2)
				case op.Kind == "readers":
					client := clients[op.Mgr%len(clients)]
					for k := 0; k < 1+op.Us; k++ {
						client.ReadTopology()
					}
				case op.Kind == "adddup":
					// AddNode with an id the manager already has: refused, and nothing of it may stay behind
					client := clients[op.Mgr%len(clients)]
					s := op.Call.Node % c.N
					if n, err := gorums.NewRawNodeWithID(scen.Addr(s), client.IDs[s]); err == nil {
						err = client.Mgr.AddNode(n)
						cl.Log.Add(scen.Event{Kind: "adddup", Call: -1, Server: s, Note: fmt.Sprint(err)})
					}
				case op.Kind == "register":
					// a handler registered while the server is running (nothing is arriving meanwhile)
					cl.RegisterLate(op.Call.Node % c.N)
				case op.Kind == "unknown":
					// a request for a method that is in the registry of the process but for which this
					// server has no handler (version skew, partial implementation): nobody answers it; its
					// context lives until the end of the case, so it never resets the stream
					client := clients[op.Mgr%len(clients)]
					s := op.Call.Node % c.N
					node := client.Node(s)
					uctx, ucancel := context.WithCancel(context.Background())
					floodMu.Lock()
					floodCancels = append(floodCancels, ucancel)
					floodMu.Unlock()
					cl.Log.Add(scen.Event{Kind: "unknown-method", Call: -1, Server: s, Note: "dummy.Dummy.Test"})
					go func() {
						_, _ = node.RPCCall(uctx, gorums.CallData{Message: &dummy.Empty{}, Method: "dummy.Dummy.Test"})
					}()
					time.Sleep(300 * time.Microsecond)
				case op.Kind == "blockdial":
					// the server's address stops answering connection attempts (they hang) from now on
					cl.Fab.Block(scen.Addr(op.Call.Node % c.N))
					cl.Log.Add(scen.Event{Kind: "blockdial", Call: -1, Server: op.Call.Node % c.N})
				case op.Kind == "cut":
					// the connections to a server break underneath it (it keeps listening)
					cl.Cut(op.Call.Node % c.N)
					atomic.AddInt32(&res.Cuts, 1)
				case op.Kind == "stop":
					cl.Stop(op.Call.Node % c.N)
				case op.Kind == "start":
					cl.Start(op.Call.Node % c.N)
				case op.Kind == "close":
					client := clients[op.Mgr%len(clients)]
					k := op.Us
					if k < 1 {
						k = 1
					}
					cl.Log.Add(scen.Event{Kind: "close_begin", Call: -1, Server: -1})
					cdone := make(chan struct{})
					var cwg sync.WaitGroup
					for j := 0; j < k; j++ {
						cwg.Add(1)
						go func() {
							defer cwg.Done()
							defer func() {
								if r := recover(); r != nil {
									closeMu.Lock()
									res.ClosePanic = fmt.Sprint(r)
									closeMu.Unlock()
								}
							}()
							client.Mgr.Close()
						}()
					}
					go func() { cwg.Wait(); close(cdone) }()
					if r, sig := scen.Await(cdone, scen.B); r == scen.Hung {
						closeMu.Lock()
						res.CloseHung = sig
						closeMu.Unlock()
					}
					cl.Log.Add(scen.Event{Kind: "close_end", Call: -1, Server: -1})
				case op.Kind == "flood":
					// background one-way traffic to one node (its context lives until the end of the case)
					client := clients[op.Mgr%len(clients)]
					node := client.Node(op.Call.Node % c.N)
					fctx, fcancel := context.WithCancel(context.Background())
					floodMu.Lock()
					floodCancels = append(floodCancels, fcancel)
					floodMu.Unlock()
					req := &puppet.Req{Note: "flood", Payload: make([]byte, op.Call.Payload)}
					n := op.Us
					mcast := op.Call.Kind == "Multicast" // the flood goes to every node; the one that does not read holds it up
					cfg0 := client.Configs[0]
					go func() {
						for k := 0; k < n && fctx.Err() == nil; k++ {
							if mcast {
								cfg0.Multicast(fctx, req, gorums.WithNoSendWaiting())
							} else {
								node.Unicast(fctx, req, gorums.WithNoSendWaiting())
							}
						}
					}()
					time.Sleep(2 * time.Millisecond)
				case op.Kind == "call":
					call := calls[i]
					if op.CancelUs > 0 && op.Call.Ctx == "cancel" {
						d := time.Duration(op.CancelUs) * time.Microsecond
						go func() {
							select {
							case <-time.After(d):
								call.Cancel()
							case <-call.DoneCh():
							}
						}()
					}
					issueBounded(call)
					if op.CancelOnReturn && call.Returned() {
						call.Cancel()
					}
					if op.Await {
						// the thread collects the future if it completes soon; a call that cannot
						// complete by itself must not stall the program
						select {
						case <-call.DoneCh():
						case <-time.After(30 * time.Millisecond):
						}
					}
				}
			}
		}(t)
	}
	tdone := make(chan struct{})
	go func() { wg.Wait(); close(tdone) }()
	// threads can only block inside library calls; a blocked thread shows up as a hung call below
	waitThreads := func(d time.Duration) bool {
		select {
		case <-tdone:
			return true
		case <-time.After(d):
			return false
		}
	}
	threadsDone := waitThreads(scen.B)

	if c.CtxCheck {
		// every call whose context has ended must be over while the nodes still misbehave
		for _, ci := range res.Calls {
			select {
			case <-ci.Call.StartedCh():
			default:
				continue // never issued: its thread is stuck in an earlier call, which is reported
			}
			if ci.Spec.Ctx == "background" || ci.Spec.Ctx == "" {
				continue
			}
			if ci.Spec.Ctx == "cancel" && c.Ops[ci.Op].CancelUs == 0 {
				continue
			}
			// wait for the context to end (cancel timers and deadlines are a few ms)
			select {
			case <-ci.Call.Ctx().Done():
			case <-ci.Call.DoneCh():
				continue
			case <-time.After(scen.B):
				continue
			}
			if len(res.HungCtx) > 0 {
				// one hang is confirmed for this case already; the others are only listed
				select {
				case <-ci.Call.DoneCh():
				case <-time.After(50 * time.Millisecond):
					res.HungCtx = append(res.HungCtx, fmt.Sprintf("call %d %s: (also not returned)", ci.Idx, ci.Kind))
				}
				continue
			}
			r, sig := scen.Await(ci.Call.DoneCh(), scen.B)
			switch r {
			case scen.Hung:
				res.HungCtx = append(res.HungCtx, fmt.Sprintf("call %d %s: %s", ci.Idx, ci.Kind, sig))
			case scen.Late:
				res.Late = true
			}
		}
	}
	if c.CloseCheck || c.EndCheck {
		// every call returns although the handlers are still held
		for _, ci := range res.Calls {
			select {
			case <-ci.Call.StartedCh():
			default:
				if !threadsDone {
					continue
				}
			}
			if len(res.HungAfterClose) > 0 {
				select {
				case <-ci.Call.DoneCh():
				case <-time.After(50 * time.Millisecond):
					res.HungAfterClose = append(res.HungAfterClose, fmt.Sprintf("call %d %s: (also not returned)", ci.Idx, ci.Kind))
				}
				continue
			}
			r, sig := scen.Await(ci.Call.DoneCh(), scen.B)
			switch r {
			case scen.Hung:
				res.HungAfterClose = append(res.HungAfterClose, fmt.Sprintf("call %d %s: %s", ci.Idx, ci.Kind, sig))
			case scen.Late:
				res.Late = true
			}
		}
		// the manager's goroutines terminate
		deadline := time.Now().Add(scen.B)
		for c.CloseCheck {
			res.Residue = res.Residue[:0]
			for _, g := range scen.Stacks() {
				if before[g.ID] {
					continue
				}
				if w := clientGoroutine(g); w != "" {
					res.Residue = append(res.Residue, w)
				}
			}
			if len(res.Residue) == 0 || time.Now().After(deadline) || len(res.HungAfterClose) > 0 {
				break
			}
			time.Sleep(2 * time.Millisecond)
		}
	}
	if !c.HoldAtEnd {
		cl.OpenAll()
	}
	for _, f := range floodCancels {
		f()
	}
	if !threadsDone {
		threadsDone = waitThreads(scen.B)
	}
	if c.Drain {
		want := 0
		for _, ci := range res.Calls {
			want += len(ci.Targets)
		}
		first := base
		last := base + uint64(len(c.Ops))
		wait := scen.B
		for _, client := range clients {
			if atomic.LoadInt32(&client.SendsFailed) > 0 {
				// a stream write was failed on purpose: some requests are never handled
				wait = 200 * time.Millisecond
			}
		}
		if atomic.LoadInt32(&res.Cuts) > 0 {
			wait = 200 * time.Millisecond
		}
		cl.Log.WaitFor(wait, func(evs []scen.Event) bool {
			return scen.Count(evs, func(e scen.Event) bool { return e.Kind == "enter" && e.Token >= first && e.Token < last }) >= want
		})
	}
	// calls that cannot end by themselves (cancelable context, not yet over after a grace period) are cancelled
	grace := time.Now().Add(30 * time.Millisecond)
	for _, ci := range res.Calls {
		if ci.Spec.Ctx != "cancel" {
			continue
		}
		select {
		case <-ci.Call.DoneCh():
			continue
		default:
		}
		if d := time.Until(grace); d > 0 {
			select {
			case <-ci.Call.DoneCh():
				continue
			case <-time.After(d):
			}
		}
		if !ci.Call.Returned() {
			ci.Call.Cancel()
		}
	}
	if !c.HoldAtEnd {
		for _, ci := range res.Calls {
			select {
			case <-ci.Call.StartedCh():
			default:
				if !threadsDone {
					continue // never issued: its thread is stuck in an earlier call, which is reported
				}
			}
			if len(res.Hung) > 0 {
				select {
				case <-ci.Call.DoneCh():
				case <-time.After(50 * time.Millisecond):
					res.Hung = append(res.Hung, fmt.Sprintf("call %d %s: (also not ended)", ci.Idx, ci.Kind))
				}
				continue
			}
			r, sig := scen.Await(ci.Call.DoneCh(), scen.B)
			switch r {
			case scen.Hung:
				res.Hung = append(res.Hung, fmt.Sprintf("call %d %s: %s", ci.Idx, ci.Kind, sig))
			case scen.Late:
				res.Late = true
			}
		}
	}
	if c.Probe {
		for mi, client := range clients {
			if len(c.ProbeMgrs) > 0 {
				in := false
				for _, m := range c.ProbeMgrs {
					if m == mi {
						in = true
					}
				}
				if !in {
					continue
				}
			}
			for s := 0; s < c.N; s++ {
				if neverUp(c, s) {
					continue // nothing to probe: the server is down for the whole case
				}
				// A probe that is concurrent with the asynchronous tear-down of a
				// stream (caused by an earlier cancelled send) may legitimately fail
				// with "unavailable"; the node is unusable only if it stays that way.
				pr := Probe{Mgr: mi, Server: s}
				for attempt := 0; attempt < 6; attempt++ {
					tok := scen.NewTokens(1)
					if c.ProbeSleepUs > 0 {
						cl.SetBehaviour(s, tok, scen.Behaviour{SleepUs: c.ProbeSleepUs})
					}
					p := client.NewCall(10000+mi*c.N+s, tok, uint64(100000+s), scen.CallSpec{Kind: "RPC", Node: s, Ctx: "cancel", Thread: 99})
					go p.Issue()
					r, sig := scen.Await(p.DoneCh(), scen.B)
					pr.Attempts = attempt + 1
					pr.Err, pr.Hung, pr.OK = "", "", false
					switch {
					case r == scen.Hung:
						pr.Hung = sig
						p.Cancel()
					case r == scen.Late:
						res.Late = true
						pr.OK = true
					case p.Err != nil:
						pr.Err = p.Err.Error()
					default:
						pr.OK = true
					}
					// unavailable-type errors: gorums' own "stream is down", grpc transport errors, io.EOF
					// from a send on a stream that is just being torn down
					if pr.OK || pr.Hung != "" || !(strings.Contains(pr.Err, "Unavailable") || strings.Contains(pr.Err, "EOF") || strings.Contains(pr.Err, "code = Canceled")) {
						break
					}
					time.Sleep(5 * time.Millisecond)
				}
				res.Probes = append(res.Probes, pr)
			}
			allOK := true
			for _, pr := range res.Probes {
				if pr.Mgr == mi && !pr.OK {
					allOK = false
				}
			}
			for ki, kind := range c.ProbeKinds {
				if !allOK || len(c.Down) > 0 {
					break
				}
				pr := Probe{Mgr: mi, Server: -1, Kind: kind}
				for attempt := 0; attempt < 6; attempt++ {
					tok := scen.NewTokens(1)
					p := client.NewCall(11000+mi*10+ki, tok, uint64(110000+ki), scen.CallSpec{Kind: kind, Ctx: "cancel", Thread: 99, Script: scen.QScript{Kind: "threshold", Q: c.N}})
					go p.Issue()
					r, sig := scen.Await(p.DoneCh(), scen.B)
					pr.Attempts = attempt + 1
					pr.Err, pr.Hung, pr.OK = "", "", false
					switch {
					case r == scen.Hung:
						pr.Hung = sig
						p.Cancel()
					case r == scen.Late:
						res.Late = true
						pr.OK = true
					case p.Err != nil:
						pr.Err = p.Err.Error()
					default:
						pr.OK = true
					}
					p.Cancel()
					if pr.OK || pr.Hung != "" || !(strings.Contains(pr.Err, "Unavailable") || strings.Contains(pr.Err, "EOF") || strings.Contains(pr.Err, "code = Canceled")) {
						break
					}
					time.Sleep(5 * time.Millisecond)
				}
				res.Probes = append(res.Probes, pr)
			}
		}
	}
	if c.HoldAtEnd {
		cl.OpenAll()
		for _, ci := range res.Calls {
			if !ci.Call.Returned() && ci.Spec.Ctx == "cancel" {
				ci.Call.Cancel()
			}
			scen.Await(ci.Call.DoneCh(), 2*time.Second)
		}
	}
	if h.BeforeTeardown != nil {
		h.BeforeTeardown(&res)
	}
	res.Events = cl.Log.Snapshot()
	return res
}

// neverUp reports whether server s is down at creation and never started by the program.
func neverUp(c Case, s int) bool {
	down := false
	for _, d := range c.Down {
		if d == s {
			down = true
		}
	}
	if !down {
		return false
	}
	for _, op := range c.Ops {
		if op.Kind == "start" && op.Call.Node == s {
			return false
		}
	}
	return true
}

// issueBounded issues the call; the stub of a one-way or synchronous call may
// block (that is what some properties look for), so the thread only waits a
// bounded time for it and then moves on (the call is reported as hung later).
func issueBounded(call *scen.Call) {
	done := make(chan struct{})
	go func() { call.Issue(); close(done) }()
	select {
	case <-done:
	case <-time.After(2*scen.B + time.Second):
	}
}

// clientGoroutine classifies a goroutine that belongs to a gorums manager:
// the per-node sender / receiver / send watcher / reconnect, per-call
// async and correctable handlers, and grpc's client-side transport goroutines.
// Server-side goroutines and harness goroutines yield "".
func ClientGoroutine(g scen.Goroutine) string { return clientGoroutine(g) }

func clientGoroutine(g scen.Goroutine) string {
	lf := g.LibFrame()
	switch {
	case strings.HasPrefix(lf, "(*channel)."), strings.HasPrefix(lf, "RawConfiguration.handle"):
		return lf + "@" + g.State
	}
	cb := g.CreatedBy()
	if strings.HasPrefix(cb, "github.com/relab/gorums.newChannel") || strings.HasPrefix(cb, "github.com/relab/gorums.(*channel)") ||
		strings.HasPrefix(cb, "github.com/relab/gorums.RawConfiguration.") {
		top := g.Frames
		if len(top) > 4 {
			top = top[:4]
		}
		return "created by " + strings.TrimPrefix(cb, "github.com/relab/gorums.") + "@" + g.State + " [" + strings.Join(top, " < ") + "]"
	}
	for _, f := range g.Frames {
		if strings.Contains(f, "grpc/internal/transport.(*http2Client)") || strings.Contains(f, "grpc/internal/transport.newHTTP2Client") ||
			strings.Contains(f, "grpc.(*addrConn)") || strings.Contains(f, "grpc.(*ccBalancerWrapper)") || strings.Contains(f, "grpc.(*ccResolverWrapper)") {
			return "grpc-client:" + strings.TrimPrefix(f, "google.golang.org/grpc") + "@" + g.State
		}
		if strings.Contains(f, "grpc/internal/transport.(*loopyWriter)") || strings.Contains(f, "grpcsync.(*CallbackSerializer)") {
			// shared by client and server side: attribute through the creator
			if strings.Contains(cb, "newHTTP2Client") || strings.Contains(cb, "grpc.newCCBalancerWrapper") || strings.Contains(cb, "grpc.newCCResolverWrapper") || strings.Contains(cb, "grpc.(*ClientConn)") || strings.Contains(cb, "grpc.newClientConn") || strings.Contains(cb, "grpc.DialContext") {
				return "grpc-client:" + strings.TrimPrefix(f, "google.golang.org/grpc") + "@" + g.State
			}
		}
	}
	return ""
}
